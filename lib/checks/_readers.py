"""Helpers shared by the checks of the readers area (C06, C07, C08).

Python only transports data here: it samples abstract inputs from a fixed seed (the
specification turns them into bytes and expectations), runs TLC and the driver, and maps
the driver's mismatch classes to verdicts.
"""
import json
import os
import random

import vlib

SPEC = os.path.join(vlib.SPECS, "readers")
DRV = "drv_readers"

PRIM_VRS = ["AE", "AS", "AT", "CS", "DA", "DS", "DT", "FL", "FD", "IS", "LO", "LT", "OB", "OD", "OF", "OL", "OV", "OW",
            "PN", "SH", "SL", "SS", "ST", "SV", "TM", "UC", "UI", "UL", "UN", "UR", "US", "UT", "UV"]
SEL_ELEM = {"AE": 94, "AS": 95, "AT": 96, "DA": 97, "CS": 98, "DT": 99, "IS": 100, "OB": 101, "LO": 102, "OF": 103,
            "LT": 104, "OW": 105, "PN": 106, "TM": 107, "SH": 108, "UN": 109, "ST": 110, "UC": 111, "UT": 112, "UR": 113,
            "DS": 114, "OD": 115, "FD": 116, "OL": 117, "FL": 118, "UL": 120, "US": 122, "SL": 124, "SS": 126, "UI": 127,
            "SQ": 128, "OV": 129, "SV": 130, "UV": 131}
SEQ_TAGS = [[8, 4416], [64, 629], [114, 128]]


def check_dict_facts(ctx, cases_path):
    """premise: the dictionary facts written in Layout.tla are those of the real dictionary"""
    rep = vlib.run_driver(DRV, ["dict", "--cases", cases_path], env=ctx.env())
    bad = [f for f in rep["facts"] if f["entry"] != f["spec"]]
    if not rep["facts"]:
        raise vlib.ToolError("no dictionary facts were checked")
    if bad:
        raise vlib.ToolError("Layout.tla dictionary facts differ from StandardDataDictionary: %s" % json.dumps(bad[:5]))
    return len(rep["facts"])


def random_structs(seed, n, path, max_dl=24):
    """n random abstract data sets {ds, ts, odd, mode} (see Layout.tla for the node shapes)."""
    rng = random.Random(seed)

    def prim(salt):
        vr = rng.choice(PRIM_VRS)
        # odd and even lengths, multiples and non-multiples of the value width
        dl = rng.choice([0, 1, 2, 3, 4, 5, 6, 7, 8, 9, 10, 11, 13, 16, rng.randint(0, max_dl)])
        return {"k": "P", "tag": [114, SEL_ELEM[vr]], "vr": vr, "dl": dl, "salt": salt}

    def nodes(depth, maxn):
        out = []
        for _ in range(rng.randint(0 if depth else 1, maxn)):
            r = rng.random()
            if depth < 2 and r < 0.25:
                items = []
                for _ in range(rng.randint(0, 3)):
                    items.append({"lm": rng.choice(["U", "E"]), "oddc": rng.random() < 0.3,
                                  "els": nodes(depth + 1, 3)})
                out.append({"k": "S", "tag": rng.choice(SEQ_TAGS), "lm": rng.choice(["U", "E"]),
                            "oddc": rng.random() < 0.3, "items": items})
            else:
                out.append(prim(rng.randint(0, 20)))
        return out

    with open(path, "w") as f:
        for _ in range(n):
            ds = nodes(0, 5)
            if rng.random() < 0.35:
                frags = [{"dl": rng.choice([0, 0, 1, 3, 4, 5, 8, 12]), "salt": 0}]
                for k in range(rng.randint(0, 3)):
                    frags.append({"dl": rng.choice([0, 1, 2, 3, 6, 7, rng.randint(0, max_dl)]), "salt": k + 1})
                ds.append({"k": "X", "frags": frags})
                if rng.random() < 0.3:
                    ds.append({"k": "P", "tag": [65532, 65532], "vr": "OB", "dl": rng.choice([0, 1, 2, 5]), "salt": 3})
            f.write(json.dumps({"ds": ds, "ts": rng.choice(["IVRLE", "EVRLE", "EVRBE"]),
                                "odd": rng.choice(["Accept", "Accept", "NextEven", "Fail"]),
                                "mode": rng.choice(["eager", "lazy"])}, separators=(",", ":")) + "\n")
    return n


def report_classes(ctx, rep, label):
    """driver mismatch classes -> violations (fingerprint = the abstract class)"""
    for m in rep["mismatches"]:
        ex = m["examples"][0] if m["examples"] else {}
        desc = "%s: %d case(s); first: %s" % (label, m["count"], json.dumps(ex.get("diff", ex))[:400])
        ctx.violation(m["class"], desc, {"class": m["class"], "count": m["count"], "examples": m["examples"]})


# ---------------------------------------------------------------- C06: random conforming files with portionings

WIDTH = {"US": 2, "SS": 2, "OW": 2, "UL": 4, "SL": 4, "FL": 4, "OF": 4, "OL": 4, "AT": 4, "FD": 8, "OD": 8, "UV": 8, "SV": 8, "OV": 8}
POOL = sorted([((8, 96), "CS"), ((8, 4416), "SQ"), ((16, 16), "PN"), ((16, 32), "LO"), ((40, 16), "US"), ((40, 17), "US"),
               ((64, 629), "SQ"), ((114, 128), "SQ")] + [((114, SEL_ELEM[v]), v) for v in PRIM_VRS])


def random_files(seed, n, path):
    """n random conforming files {ts, pre, ds, plan}: ascending unique tags, even lengths that are
    multiples of the value width, nested sequences, pixel data variants, and a legal call plan."""
    rng = random.Random(seed * 7919 + 17)

    def dataset(depth, lo, hi):
        k = rng.randint(lo, hi)
        picks = sorted(rng.sample(range(len(POOL)), min(k, len(POOL))))
        out = []
        for i in picks:
            (tag, vr) = POOL[i]
            if vr == "SQ":
                if depth >= 2:
                    continue
                lm = rng.choice(["U", "E"])
                items = [{"lm": rng.choice(["U", "E"]), "oddc": False, "els": dataset(depth + 1, 0, 3)}
                         for _ in range(rng.randint(0, 3))]
                out.append({"k": "S", "tag": list(tag), "lm": lm, "oddc": False, "items": items})
            else:
                w = WIDTH.get(vr, 1)
                unit = w if w % 2 == 0 else 2
                dl = unit * rng.choice([0, 1, 1, 2, 3, 4]) if w > 1 else rng.choice([0, 2, 4, 6, 8, 12, 16])
                out.append({"k": "P", "tag": list(tag), "vr": vr, "dl": dl, "salt": rng.randint(0, 20)})
        return out

    with open(path, "w") as f:
        for _ in range(n):
            ds = dataset(0, 2, 9)
            r = rng.random()
            nitems = -1
            if r < 0.3:
                ds.append({"k": "P", "tag": [32736, 16], "vr": "OW", "dl": rng.choice([2, 4, 8, 16]), "salt": 7})
                nitems = 1
            elif r < 0.8:
                frags = [{"dl": rng.choice([0, 0, 4, 8, 12]), "salt": 0}]
                for k in range(rng.randint(0, 4)):
                    frags.append({"dl": rng.choice([0, 2, 4, 6, 10, 16]), "salt": k + 1})
                ds.append({"k": "X", "frags": frags})
                nitems = len(frags)
            if nitems >= 0 and rng.random() < 0.35:
                ds.append({"k": "P", "tag": [65532, 65532], "vr": "OB", "dl": rng.choice([0, 2, 6]), "salt": 3})
            # a legal plan
            plan = []
            if rng.random() < 0.3:
                plan.append({"call": "pre"})
            tail = rng.choice(["toend", "bot", "frag", "frag"])
            if rng.random() < 0.7 or tail == "toend":
                plan.append({"call": "meta"})
                tags = sorted({tuple(e["tag"]) if "tag" in e else (32736, 16) for e in ds} | {(16, 0), (32736, 16), (65533, 0)})
                stops = sorted(rng.sample(tags, min(len(tags), rng.randint(0, 3))))
                if tail != "toend":
                    stops = [t for t in stops if t <= (32736, 16)]
                plan += [{"call": "upto", "tag": list(t)} for t in stops]
            if tail == "toend":
                plan.append({"call": "toend"})
            else:
                if tail == "bot":
                    plan.append({"call": "bot"})
                plan += [{"call": "frag"}] * (max(nitems, 0) + 2)
            f.write(json.dumps({"ts": rng.choice(["IVRLE", "EVRLE", "EVRBE"]), "pre": rng.random() < 0.5, "ds": ds, "plan": plan},
                               separators=(",", ":")) + "\n")
    return n


# ---------------------------------------------------------------- growth beyond the listed properties (thorough tier)

def note_observations(ctx, rep, title, key):
    """Deviations found by the growth parts are observations: notes + extra coverage, never violations."""
    classes = [(m["count"], m["class"]) for m in rep["mismatches"]]
    ctx.extra_cov[key + "_observation_classes"] = [{"count": n, "class": c} for n, c in classes[:60]]
    ctx.extra_cov[key + "_panics"] = rep.get("panics", [])[:10]
    if rep.get("panics"):
        ctx.note("GROWTH %s: %d PANIC(S) in a reader entry point (C05-class, reported to the coordinator, not a verdict of this "
                 "property); first: %s" % (title, len(rep["panics"]), json.dumps(rep["panics"][0])[:600]))
    if classes:
        ctx.note("GROWTH %s: %d observation class(es) outside the statement of the listed properties (not violations): %s"
                 % (title, len(classes), "; ".join("%s (x%d)" % (c, n) for n, c in classes[:12])))
    else:
        ctx.note("GROWTH %s: no deviation observed" % title)
