"""C25  PDUs are encoded and decoded losslessly with exact framing.

1. TLC checks the theorems of the PS3.8 layout module PS38Pdu on the instance space
   PS38PduInst (every PDU kind, 0-2 presentation contexts, 1-2 transfer syntaxes, every
   user sub-item kind, short strings, complete reject/abort tables):
   ReadPdu(PduBytes(p)) = Ok(p, Len), every strict prefix Incomplete, following bytes
   untouched, Writable.
2. Binding A: TLC prints every instance with PduBytes(p), the oversize table
   (shape, n, Writable) and the strict-mode table; drv_pdu runs write_pdu / read_pdu on
   each (full encoding, with following bytes, strict and non-strict, EVERY strict
   prefix) and records what the code did.
3. The recorded events are judged by Trace_PS38Pdu with the same operators (the
   independent parser ReadPdu on the bytes really written; Writable for failures).
   Binding B: seeded random PDUs within the documented repertoires, same judge.
"""
import json
import os
import time

import vlib
from checks import _ps38pdu as H

SPEC = H.SPEC
RESET = ("enc", "big")


def _kind(evs):
    for e in evs:
        if e.get("ev") == "enc":
            return (e.get("pdu") or {}).get("k", "?")
        if e.get("ev") == "big":
            return "oversize " + str(e.get("shape"))
    return "?"


def fingerprint(rec, evs):
    if not isinstance(rec, dict):
        return "unparsed"
    ev = rec.get("ev")
    kind = _kind(evs) if evs else "?"
    if ev == "big":
        if rec.get("res") == "ok":
            return "write_pdu ok on %s: content does not fit its 16-bit length field or bytes are not the PDU" % ("oversize " + str(rec.get("shape")))
        return "write_pdu %s on oversize %s although the PDU is writable" % (rec.get("res"), rec.get("shape"))
    if ev == "enc":
        k = (rec.get("pdu") or {}).get("k", "?")
        if rec.get("res") == "ok":
            return "write_pdu %s: bytes are not a PS3.8 encoding of the PDU" % k
        return "write_pdu %s: %s on a writable PDU" % (k, rec.get("res"))
    if ev == "dec":
        return "read_pdu %s: result %s (strict=%s, tail=%d)" % (kind, rec.get("res"), rec.get("strict"), len(rec.get("tail") or []))
    if ev == "prefixes":
        return "read_pdu %s: a strict prefix is not incomplete (strict=%s)" % (kind, rec.get("strict"))
    return "event " + str(ev)


def judge(ctx, path, label, max_rejections=6):
    t0 = time.time()
    try:
        return _judge(ctx, path, label, max_rejections)
    finally:
        vlib.log("[C25] judged %s in %.1fs" % (os.path.basename(path), time.time() - t0))


def _judge(ctx, path, label, max_rejections=6):
    return H.judge(ctx, "Trace_PS38Pdu", path, "Trace_PS38Pdu_strict.cfg", "Trace_PS38Pdu_prop.cfg", RESET,
                   fingerprint, label, max_rejections=max_rejections)


def selftest(ctx, trace_path):
    """corrupt one recorded field at a time; the validator must reject exactly there"""
    evs = vlib.read_ndjson(trace_path)[:60]
    ienc = next(i for i, e in enumerate(evs) if e["ev"] == "enc" and e["res"] == "ok" and len(e["bytes"]) >= 10)
    idec = next(i for i, e in enumerate(evs) if i > ienc and e["ev"] == "dec" and e["res"] == "pdu")
    ipre = next(i for i, e in enumerate(evs) if i > ienc and e["ev"] == "prefixes")
    muts = []
    m = json.loads(json.dumps(evs)); m[ienc]["bytes"][5] = (m[ienc]["bytes"][5] + 1) % 256
    muts.append(("PDU-length field of the written bytes", m, ienc + 1))
    m = json.loads(json.dumps(evs)); m[idec]["consumed"] += 1
    muts.append(("consumed length of read_pdu", m, idec + 1))
    m = json.loads(json.dumps(evs)); m[ipre]["codes_rl"] = [[1, 1]] + [[m[ipre]["codes_rl"][0][0] - 1, 0]]
    muts.append(("prefix outcome", m, ipre + 1))
    for i, (what, m, line) in enumerate(muts):
        p = ctx.path("selftest_%d.ndjson" % i)
        vlib.write_ndjson(p, m)
        H.must_reject(ctx, "Trace_PS38Pdu", p, "Trace_PS38Pdu_prop.cfg", what, expect_line=line)
    ctx.extra_cov["binding_selftests"] = len(muts)


def run(ctx):
    q = ctx.quick
    ctx.level = "model_checking"
    ctx.rule = ("TLC checks the PS3.8 layout theorems on the whole instance space and prints every instance with its "
                "prescribed bytes plus the oversize and strict-mode tables; each is executed on write_pdu/read_pdu (incl. "
                "every strict prefix) and the recorded events, plus seeded random PDUs, are judged by TLC with the "
                "independent parser ReadPdu. distinct_nontrivial = distinct PDUs (abstract values) with variable content "
                "whose real encoding was judged.")
    ctx.assumptions += [
        "well-formed PDU = text fields within their repertoires (AE titles 1..16 G0 characters without leading/trailing space, "
        "UIDs of digits and dots, no padding), reject/abort codes from the PS3.8 tables, unknown PDU / sub-item types outside "
        "the defined ones; user_variables = [] is encoded without a User Information item",
        "strict-mode maximum is exercised on every PDU kind whose length can exceed it (P-DATA-TF, A-ASSOCIATE-RQ/AC, unknown types; "
        "RJ/release/abort have the fixed length 4), with the length field at max-1, max, max+1, max+2, max+1018 for max 1018 and 16378, "
        "strict and non-strict; 32-bit length overflow (4 GiB) is out of reach",
        "TLC integers are 32-bit: PDU lengths >= 2^31 are treated as 'never complete'",
    ]
    vlib.build_harness(["drv_pdu"])

    # 1+2. one TLC run over the instance space: the theorems are invariants (GTheorems =
    # MC_PS38Pdu's ThRoundTrip/ThPrefixes/ThFraming/ThWritable; a failure is a tool error of
    # the model) and every instance is printed as a case for the real code
    cases = ctx.path("cases.ndjson")
    gr, n = vlib.tlc_generate(SPEC, "Gen_PS38Pdu", "Gen_PS38Pdu_%s.cfg" % ("quick" if q else "thorough"), cases,
                              timeout=3000, heap="8g")
    ctx.add_tlc(gr)
    vlib.log("[C25] theorems model-checked on, and %d cases generated from, %d instances in %.1fs" % (n, gr.distinct, gr.wall_s))
    if gr.distinct < 1000:
        raise vlib.ToolError("vacuity: instance space has only %d PDUs" % gr.distinct)
    ctx.extra_cov["instances_model_checked"] = gr.distinct
    rep = vlib.run_driver("drv_pdu", ["replay", "--cases", cases, "--out", ctx.path("replay")], env=ctx.env())
    ctx.cov["evaluations"] += rep["cases"]
    need = {"rq", "ac", "rj", "pdata", "rrq", "rrp", "abort", "unknown", "big", "strict"}
    if not need <= set(rep["kinds"]):
        raise vlib.ToolError("vacuity: PDU kinds missing from the generated cases: %s" % sorted(need - set(rep["kinds"])))
    with open(cases) as f:
        lines = f.readlines()
    for i in (0, len(lines) // 3, (2 * len(lines)) // 3):
        ctx.sample(json.loads(lines[i]))

    # 3. judge the recorded events
    events = 0
    distinct = set()
    ncases = 0
    for tf in rep["trace_files"]:
        big = tf["path"].endswith("_big.ndjson")
        events += judge(ctx, tf["path"], "replay of TLC cases", max_rejections=3 if big else 6)
        for e in vlib.read_ndjson(tf["path"]):
            if e["ev"] == "enc":
                ncases += 1
                if e["res"] == "ok" and len(e["bytes"]) > 10:
                    distinct.add(json.dumps(e["pdu"], sort_keys=True))
            elif e["ev"] == "big":
                ncases += 1
                distinct.add("big %s %d" % (e["shape"], e["n"]))
    if rep["mismatch_count"]:
        ctx.note("%d case(s) where the code differs from the value TLC expected (judged by the trace validation above); first: %s"
                 % (rep["mismatch_count"], json.dumps(rep["mismatches"][0])[:500]))
    ctx.extra_cov["expected_value_mismatches"] = rep["mismatch_count"]
    ctx.extra_cov["prefixes_tried"] = rep["prefixes"]

    # 4. seeded random PDUs
    rep2 = vlib.run_driver("drv_pdu", ["random", "--n", 300 if q else 6000, "--out", ctx.path("random")], env=ctx.env())
    ctx.cov["evaluations"] += rep2["cases"]
    for tf in rep2["trace_files"]:
        events += judge(ctx, tf["path"], "seeded random PDUs")
        for e in vlib.read_ndjson(tf["path"]):
            if e["ev"] == "enc":
                ncases += 1
                if e["res"] == "ok" and len(e["bytes"]) > 10:
                    distinct.add(json.dumps(e["pdu"], sort_keys=True))
    ctx.extra_cov["prefixes_tried"] += rep2["prefixes"]
    ctx.extra_cov["random_max_encoded_len"] = rep2["max_encoded_len"]
    ctx.cov["traces_validated_against_impl"] = ncases
    ctx.cov["distinct_nontrivial"] = len(distinct)
    ctx.extra_cov["trace_events_validated"] = events
    ctx.exhaustive = False

    # 6. growth beyond C25 (thorough tier only, notes only): the reader on malformed PDUs
    if not q:
        from checks import _ps38mut
        _ps38mut.growth(ctx, vlib, SPEC)

    # 5. binding self-test
    if not q or os.environ.get("VERIF_SELFTEST"):
        selftest(ctx, [tf["path"] for tf in rep["trace_files"] if not tf["path"].endswith("_big.ndjson")][0])
