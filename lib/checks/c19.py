"""C19  Lossless transcoding preserves pixel data exactly.

Specification: specs/pixel/Transcode.tla - the object (transfer syntax, native value or
one fragment per frame) under the actions Transcode(t) (four-way case split of
transcode_with_options) and Hop (written to a file and read back, where padding
appears); invariants PixelsPreserved, NativeShape, EncapsShape, AttrConsistent.

1. TLC model-checks Transcode for all chains of up to 3 (thorough 4) steps over
   {IVRLE, EVRLE, EVRBE, Encapsulated Uncompressed, Deflated Image Frame} with a hop
   allowed before/after every step.
2. Gen_Transcode prints every behaviour that ends in Explicit VR LE as a chain;
   drv_encaps replays it on the real code (Transcode::transcode, write_all +
   from_reader for a hop) plus seeded random images/chains (up to 12x12, 7 frames).
3. Trace_Transcode (TLC) judges the final object of every chain: pixel bytes identical
   to the original (only the even-length pad of an odd-length value may follow),
   attributes consistent with the pixel data length.
"""
import json

import vlib
from checks import _pixel as P

NAMES = {
    "ran": "a step of the chain failed",
    "ts": "final transfer syntax is not Explicit VR Little Endian",
    "native": "final pixel data is not native",
    "pixels": "pixel bytes differ from the original",
    "attrs": "image attributes inconsistent with the pixel data length",
    "premise": "generated image inconsistent (tool)",
}


def chain_class(e):
    """abstract description of a chain for the fingerprint: the kinds of steps it has"""
    kinds = []
    for s in e["chain"]:
        k = "hop" if s == "hop" else ("encaps" if s in ("EncUncomp", "DeflFrame") else ("BE" if s == "EVRBE" else "LE"))
        if not kinds or kinds[-1] != k:
            kinds.append(k)
    return ">".join(kinds)


def run(ctx):
    q = ctx.quick
    ctx.level = "model_checking"
    ctx.rule = ("TLC exhaustive over transcoding chains (<= %d steps, optional file hop around every step) over the native "
                "syntaxes and the lossless encoders, images 1-3 frames, 8/16 bits, 1/3 samples, odd and even frame sizes; "
                "every chain ending in Explicit VR LE replayed on Transcode::transcode with real write/read hops; final "
                "objects judged by TLC (Trace_Transcode); seeded random larger images/chains. distinct_nontrivial = "
                "distinct (image geometry, start syntax, chain) replayed." % (3 if q else 4))
    ctx.assumptions += [
        "lossless encoders in the registry as built: Encapsulated Uncompressed and Deflated Image Frame (RLE Lossless "
        "has no encoder, JPEG baseline is lossy and excluded); the check fails as a tool error if they are missing",
        "a file hop may leave the single null byte that pads an odd-length native value at the very end (PadNorm)",
        "images are built in memory: 8-bit data as OB bytes, 16-bit data as OW words; planar configuration 0",
        "in the model lossless codecs are the identity on frame bytes; the real compressors run in the replay",
    ]
    vlib.build_harness(["drv_encaps"])

    P.mc(ctx, "MC_Transcode", "MC_Transcode_quick.cfg" if q else "MC_Transcode_thorough.cfg", ["Transcode", "Hop"])

    cases = ctx.path("cases.ndjson")
    n = 0
    for i, cfg in enumerate(["Gen_Transcode_a.cfg", "Gen_Transcode_b.cfg"] if q else ["Gen_Transcode_thorough.cfg"]):
        n += P.generate(ctx, "MC_GenTranscode", cfg, cases, append=(i > 0), heap="8g", timeout=3000)
    trace = ctx.path("trace.ndjson")
    rep = vlib.run_driver("drv_encaps", ["c19", "--cases", cases, "--out", trace, "--random", 150 if q else 3000], env=ctx.env())
    for need in ("1.2.840.10008.1.2.1.98", "1.2.840.10008.1.2.8.1"):
        if need not in rep["encoder_syntaxes"]:
            raise vlib.ToolError("vacuity: lossless encoder %s is not in the registry built into the harness" % need)
    ctx.cov["evaluations"] += rep["events"]
    ctx.cov["distinct_nontrivial"] += rep["distinct_chains"]

    fails = P.validate_independent(ctx, "Trace_Transcode", trace, timeout=3000)
    ctx.cov["traces_validated_against_impl"] += rep["events"]
    for ln, why, e in fails:
        if "premise" in why:
            raise vlib.ToolError("generated image inconsistent at event %d" % ln)
        for w in why:
            fp = "%s: %d-bit, chain %s" % (NAMES.get(w, w), e["bits"], chain_class(e))
            ctx.violation(fp, "event %d: %dx%dx%d %d-bit %d frame(s) start %s chain %s: res=%s trail=%s original=%s final=%s" % (
                ln, e["rows"], e["cols"], e["spp"], e["bits"], e["frames"], e["start"], e["chain"], e["res"],
                json.dumps(e["trail"]), e["data"][:24], json.dumps(e["final"])[:300]), {"event": e, "failed_checks": why})
    P.sample_lines(ctx, cases, n)

    # binding self-test: a pad byte inside the final pixel data must be flagged
    evs = vlib.read_ndjson(trace)
    for e in evs:
        if e["res"] == "ok" and len(e["final"]["pixels"]) >= 3:
            e["final"]["pixels"].insert(len(e["final"]["pixels"]) // 2, 0)
            break
    else:
        raise vlib.ToolError("self-test: no event to corrupt")
    st = trace + ".selftest"
    vlib.write_ndjson(st, [e])
    if not P.validate_independent(ctx, "Trace_Transcode", st):
        raise vlib.ToolError("binding self-test failed: Trace_Transcode accepted a pad byte inside the pixel data")
    ctx.extra_cov.setdefault("binding_selftests", []).append("Trace_Transcode flags a pad byte inserted into the final pixel data")
    ctx.exhaustive = False

    # specification growth (thorough tier only): colour / palette images through transcode, Extended Offset Table
    if not q:
        from checks import _pipeline
        _pipeline.run_transcode(ctx)
