"""C22  Modality and VOI LUT outputs match the PS3.3 formulas (partial: see assumptions).

Specification: specs/pixel/Lut.tla - Interp (bits above the high bit ignored, two's
complement from bits stored), Rescale4, Linear / LinearExact (PS3.3 C.11.2.1.2 /
C.11.2.1.3.2) as exact fractions over dyadic parameters, YMax, ConvertedOk.

1. Gen_Lut: TLC enumerates the parameter grid (bits stored x signedness x allocation x
   dyadic slope/intercept x window centre/width incl. degenerate widths 0 and 1).
2. drv_lut builds an image holding the stored values (all 256 for 8 bits allocated; all
   65536 in the thorough tier, strided + boundaries in quick for 16 bits) and converts it
   through the real pipeline (decode_pixel_data().to_vec / to_vec_with_options, f64 and
   u16 outputs); plus seeded random dyadic parameters.
3. Trace_Lut (TLC) judges every event: exact equality with slope*x+intercept resp. the
   window formula (f64 output), the integer output being a rounding of the exact value
   and within 0..ymax.
4. Scans with ARBITRARY parameters and all three functions (incl. SIGMOID), slope >= 0,
   are validated point by point by the action TPoint: the output never decreases as the
   stored value increases and stays within the output range.
"""
import json

import vlib
from checks import _pixel as P

NAMES = {
    "ran": "conversion failed",
    "value": "default pipeline output differs from slope*value+intercept",
    "exact": "window output differs from the PS3.3 formula",
    "converted": "integer output is not the converted formula value",
    "range": "output outside 0..ymax",
    "premise": "generated case outside the premise (tool)",
}


def run(ctx):
    q = ctx.quick
    ctx.level = "exploration"
    ctx.rule = ("TLC-enumerated dyadic parameter grid x stored values (8-bit allocation: all 256; 16-bit: %s) through the "
                "real conversion pipeline, outputs judged by TLC with exact integer arithmetic (Trace_Lut); monotonicity "
                "and range for all three VOI functions on scans with arbitrary parameters. distinct_nontrivial = "
                "parameter cases + scans judged." % ("boundaries + stride" if q else "all 65536 for the default pipeline"))
    ctx.assumptions += [
        "NOT COVERED: equality with the SIGMOID formula, and equality with the linear formulas for non-dyadic parameters "
        "(TLC has no real arithmetic); a change that alters only those values but keeps range and monotonicity is not detected",
        "exact comparison only where f64 is exact: slope/intercept/centre multiples of 1/4, divisor (w-1 resp. w) a power of two",
        "'converted to the output type' is read as any rounding (floor or ceiling) of the exact value",
        "output range 0..2^n-1 with n the power of two following Bits Stored, as documented by Lut::new_rescale_and_window; "
        "High Bit = Bits Stored - 1; MONOCHROME2; window given through VoiLutOption::CustomWithFunction",
        "only convert_pixel_slice (to_vec*) is exercised, not the to_dynamic_image path",
    ]
    vlib.build_harness(["drv_lut"])

    cases = ctx.path("cases.ndjson")
    n = P.generate(ctx, "Gen_Lut", "Gen_Lut_quick.cfg" if q else "Gen_Lut_thorough.cfg", cases)
    points, scans = ctx.path("points.ndjson"), ctx.path("scans.ndjson")
    args = ["run", "--cases", cases, "--points", points, "--scans", scans, "--random", 40 if q else 600,
            "--nscans", 40 if q else 600]
    if not q:
        args.append("--full")
    rep = vlib.run_driver("drv_lut", args, env=ctx.env())
    ctx.cov["evaluations"] += rep["point_events"] + rep["scans"]
    ctx.cov["distinct_nontrivial"] += rep["point_events"] + rep["scans"]

    fails = P.validate_independent(ctx, "Trace_Lut", points, timeout=6000, heap="8g")
    for ln, why, e in fails:
        if "premise" in why:
            raise vlib.ToolError("generated case outside the premise at event %d" % ln)
        for w in why:
            fp = "%s (%s, %d bits allocated, bits stored %s allocated)" % (
                NAMES.get(w, w), e.get("fn", "rescale"), e["ba"], "<" if e["bs"] < e["ba"] else "=")
            ev = dict(e)
            ev["pts"] = e["pts"][:40]
            ctx.violation(fp, "event %d: %s" % (ln, json.dumps({k: v for k, v in e.items() if k != "pts"})), {"event": ev, "failed_checks": why})
    for rj in P.validate(ctx, "Trace_Lut", scans, reset_events=("scan",), timeout=3000):
        hdr = rj["case_events"][0] if rj["case_events"] else {}
        r = rj["record"]
        what = "scan could not run" if r.get("ev") == "scan" else "output decreases or leaves 0..ymax"
        fp = "%s (%s scan, arbitrary parameters)" % (what, hdr.get("fn"))
        ctx.violation(fp, "scan %s rejected at %s" % (json.dumps(hdr), json.dumps(r)), {"scan": hdr, "rejected": r,
                                                                                      "events": rj["case_events"][-20:]})
    ctx.cov["traces_validated_against_impl"] += rep["scans"]
    P.sample_lines(ctx, cases, n)

    # binding self-tests
    evs = vlib.read_ndjson(points)
    for e in evs:
        if e["ev"] == "win" and e["res"] == "ok" and e["pts"]:
            k = len(e["pts"]) // 2
            e["pts"][k][2] = e["pts"][k][2] + 2 if e["pts"][k][2] < 2 else e["pts"][k][2] - 2
            break
    st = points + ".selftest"
    vlib.write_ndjson(st, [e])
    if not P.validate_independent(ctx, "Trace_Lut", st):
        raise vlib.ToolError("binding self-test failed: Trace_Lut accepted a corrupted window output")
    sc = vlib.read_ndjson(scans)
    idx = [i for i, e in enumerate(sc) if e["ev"] == "pt" and e["y"] > 0]
    if not idx:
        raise vlib.ToolError("self-test: no scan point with positive output")
    i = idx[0]
    start = max(j for j in range(i) if sc[j]["ev"] == "scan")
    one = [dict(x) for x in sc[start:i + 2]]
    one[i - start - 1]["y"] = one[i - start]["y"] + 1 if i - start - 1 >= 1 else one[i - start - 1].get("y", 0)
    if i - start - 1 < 1:
        one[-1]["y"] = -1
    st2 = scans + ".selftest"
    vlib.write_ndjson(st2, one)
    res = vlib.validate_trace(P.SPEC, "Trace_Lut", st2, cfg="Trace_Lut.cfg")
    if res["accepted"]:
        raise vlib.ToolError("binding self-test failed: Trace_Lut accepted a non-monotone scan")
    ctx.extra_cov["binding_selftests"] = ["Trace_Lut flags a corrupted window output", "Trace_Lut rejects a non-monotone scan"]
    ctx.exhaustive = False

    # specification growth (thorough tier only): the whole conversion pipeline under ConvertOptions
    if not q:
        from checks import _pipeline
        _pipeline.run_conversion(ctx)
