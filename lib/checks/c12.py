"""C12  Partial dates and times round-trip through text and bound their ranges.

DateTime.tla: integer calendar arithmetic, Encode / Parse for DA, TM, DT at every precision
(fractions of 1-6 digits, leap second 60, offsets), byte length, Earliest / Latest, range texts.
(A) TLC enumerates all partial dates of boundary + seeded years, h/m/s combinations, fractions,
    a date x time x offset product of date-times and range texts; in the same runs it checks the
    specification's theorems (Parse(Encode(v)) = v, Len(Encode(v)) = ByteLen(v), Earliest/Latest are
    the tight bounds of the instants consistent with v); the driver executes every case.
(B) the driver enumerates natively (every year; months/days of boundary + seeded years in quick,
    of all years 0-9999 in thorough; h/m/s combinations) and samples fractions, offsets, date-times
    and ranges by seed; Trace_DateTime re-computes every recorded result.
"""
import os
import random

import vlib
from checks import _values as V


def fp_trace(rec):
    if rec.get("ev") == "val":
        v = rec.get("v", {})
        leap = ", leap second" if v.get("s") == 60 else ""
        if rec.get("res") == "panic":
            return "panic on a valid value (%s%s)" % (rec.get("class"), leap)
        if rec.get("res") != "ok":
            return "constructing/encoding/parsing a valid value fails (%s%s)" % (rec.get("class"), leap)
        if not rec["e"].get("ok") or not rec["l"].get("ok"):
            return "earliest()/latest() fails on a valid value (%s%s)" % (rec.get("class"), leap)
        return "recorded value results differ from the specification (%s%s)" % (rec.get("class"), leap)
    if rec.get("ev") == "da":
        return "recorded date results differ from the specification (DA %s)" % rec.get("p")
    if rec.get("ev") == "range":
        shape = "%s %s-%s" % (rec.get("vkind"), "A" if rec.get("hasA") else "", "B" if rec.get("hasB") else "")
        if rec.get("leap"):
            shape += ", leap second"
        if not rec["res"].get("ok"):
            return "range parse fails (%s)" % shape
        return "range parse differs (%s)" % shape
    return "event " + str(rec.get("ev"))


def run(ctx):
    q = ctx.quick
    ctx.level = "model_checking"
    ctx.rule = ("TLC exhaustive over all partial dates of 10 boundary + %d seeded years, all hours, hour/minute pairs and "
                "hour/minute/second triples with second in %s, fractions of 1-6 digits at 4 bases, a 40-date x 9-time x 9-offset "
                "date-time product and 226 range texts, each with the spec theorems as invariants and each executed on the "
                "real code; native enumeration by the driver (all years; months/days of %s) and seeded fractions/offsets/"
                "date-times/ranges judged by TLC. distinct_nontrivial = TLC cases + recorded events."
                % (20 if q else 100, "{0,1,30,58,59,60}" if q else "0..60", "40 boundary+seeded years" if q else "all years 0-9999"))
    ctx.assumptions += [
        "valid values only (DateTime!Valid: calendar-correct days, offsets within -1200..+1400 in whole minutes)",
        "instants consistent with a value have second <= 59 unless the value itself states second 60",
        "range texts: not inverted; date-time bounds both with or both without offset; offsets equal or the values a "
        "year apart; the textually ambiguous shape 'west offset in A, east offset in B' is not claimed",
        "fraction precisions other than 3 and 6 are built by parsing driver-formatted text (no public constructor)",
        "single-value byte length is observable only padded to even (calculate_byte_len); checked on [v] and [v,v]",
    ]
    vlib.build_harness(["drv_datetime"])

    # A: generated cfg for the date family with seeded years
    rnd = random.Random(ctx.seed)
    years = sorted(set([0, 1, 4, 100, 400, 1900, 2000, 2023, 2024, 9999] + [rnd.randrange(10000) for _ in range(20 if q else 100)]))
    cfg = ctx.path("Gen_DateTime_date_seeded.cfg")
    with open(cfg, "w") as f:
        f.write('CONSTANTS Kind = "date" Years = {%s} Secs = {0}\nSPECIFICATION Spec\nINVARIANT SpecOk\nINVARIANT Emit\n'
                'CHECK_DEADLOCK FALSE\n' % ", ".join(map(str, years)))
    cfgs = [cfg, "Gen_DateTime_time.cfg" if q else "Gen_DateTime_time_thorough.cfg", "Gen_DateTime_dt.cfg", "Gen_DateTime_range.cfg"]
    cases, n = V.generate(ctx, "Gen_DateTime", cfgs, "cases.ndjson", timeout=3000)
    rep = vlib.run_driver("drv_datetime", ["replay", "--cases", cases], env=ctx.env())
    if rep["cases"] != n:
        raise vlib.ToolError("driver executed %d of %d cases" % (rep["cases"], n))
    ctx.cov["evaluations"] += rep["cases"]
    ctx.cov["distinct_nontrivial"] += rep["nontrivial"]
    V.report_mismatches(ctx, rep, "TLC case on real code")
    for i, c in enumerate(vlib.read_ndjson(cases)):
        if i in (400, n // 2, n - 1):
            ctx.sample(c)

    def corrupt_case(c):
        if c["kind"] == "val" and c["v"]["dprec"] == "M":
            c["l"]["d"] -= 1
            return True
        return False
    V.selftest_replay(ctx, "drv_datetime", lambda p: ["replay", "--cases", p], cases, corrupt_case, "an expected latest() day - 1")

    # B
    rep2 = vlib.run_driver("drv_datetime", ["record", "--tier", ctx.tier, "--out", ctx.path("rec")], env=ctx.env(), timeout=3000)
    if rep2["events"] == 0:
        raise vlib.ToolError("vacuity: no events recorded")
    V.validate_files(ctx, "Trace_DateTime", [tf["path"] for tf in rep2["trace_files"]], ("val", "da", "range"), fp_trace,
                     "recorded native enumeration", max_rejections=4, timeout=3000, heap="4g")
    ctx.cov["evaluations"] += rep2["events"]
    ctx.cov["distinct_nontrivial"] += rep2["events"]
    ctx.cov["traces_validated_against_impl"] += rep2["events"]
    ctx.extra_cov["years_with_all_days_recorded"] = rep2["day_years"]
    ctx.extra_cov["recorded_events_not_ok"] = rep2["not_ok"]

    def corrupt(e):
        if e.get("ev") == "val" and e.get("res") == "ok" and e["v"]["dprec"] == "M":
            e["l"]["i"]["d"] -= 1
            return True
        return False
    V.selftest_corrupt(ctx, "Trace_DateTime", rep2["trace_files"][0]["path"], corrupt, "a recorded latest() day - 1")
    # growth beyond C12 (thorough tier only, observation only): to_date/to_time/to_datetime(+multi) on text,
    # range texts of every shape incl. mixed and west/east offsets, constructors on invalid components
    if not q:
        rep3 = vlib.run_driver("drv_datetime", ["grow", "--n", 6000, "--out", ctx.path("grow")], env=ctx.env())
        V.observe(ctx, rep3["trace"], "date/time conversions from text, range texts, constructors")
    ctx.exhaustive = False


def replay(ctx, obj):
    """bin/check C12 --replay <file>: re-execute one recorded violation alone"""
    ctx.level = "model_checking"
    ctx.rule = "replay of one recorded violation"
    V.replay_file(ctx, "drv_datetime", lambda c: ["replay", "--cases", c], "Trace_DateTime", ("val", "da", "range"), fp_trace)
