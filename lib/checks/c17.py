"""C17  Person names round-trip between text and components.

PersonName.tla is the specification (ToText / FromText over code point sequences, written
from the property text and PS3.5 6.2).  TLC (1) checks the specification's own theorems
(round trip, trailing components omitted) on every 5-tuple over the component alphabet and
prints each tuple with the expected text and expected parse; the driver executes each on
PersonNameBuilder / to_dicom_string / from_text / PrimitiveValue (binding A); (2) judges
recorded (components, text, parsed-back components) triples of seeded random component
texts over all 32 presence combinations (binding B, Trace_PersonName).
"""
import vlib
from checks import _values as V


def fp_trace(rec):
    if rec.get("res") == "panic":
        return "panic formatting/parsing a person name (%s)" % rec.get("via")
    return "recorded person-name round trip rejected (%s) presence=%s" % (rec.get("via"), rec.get("presence"))


def run(ctx):
    q = ctx.quick
    ctx.level = "model_checking"
    ctx.rule = ("TLC exhaustive over all 5-tuples of the component alphabet (all 32 presence combinations; "
                "round-trip and trailing-omission theorems of the spec checked in the same run); every tuple "
                "executed on the real builder/printer/parser; seeded random component texts recorded from the real "
                "code and judged by TLC. distinct_nontrivial = tuples/events with at least one present component.")
    ctx.assumptions += [
        "premise of C17 as predicate PersonName!WellFormed: no '^', '=' in a component (a backslash is allowed), no leading/trailing "
        "space; random texts additionally avoid control characters and Unicode whitespace at component edges",
        "a present component is a non-empty string (a component set to \"\" through the builder is reported as drift only)",
    ]
    vlib.build_harness(["drv_pname"])

    # A: spec -> code
    cases, n = V.generate(ctx, "Gen_PersonName", ["Gen_PersonName.cfg" if q else "Gen_PersonName_thorough.cfg"], "cases.ndjson")
    rep = vlib.run_driver("drv_pname", ["replay", "--cases", cases, "--out", ctx.path("replay")], env=ctx.env())
    if rep["cases"] != n:
        raise vlib.ToolError("driver executed %d of %d cases" % (rep["cases"], n))
    if not rep.get("reuse_names") and not rep.get("mismatch_count"):
        raise vlib.ToolError("vacuity: no names built from a reused builder")
    ctx.cov["evaluations"] += rep["cases"] + rep["reuse_names"]
    ctx.cov["distinct_nontrivial"] += rep["nontrivial"]
    ctx.extra_cov["names_built_from_a_reused_builder"] = rep["reuse_names"]
    V.report_mismatches(ctx, rep, "TLC case on real code")
    if rep.get("drift_some_empty"):
        ctx.note("drift (not judged): %d tuples where a component set to the empty string through the builder is "
                 "printed as a present component, e.g. %s" % (rep["drift_some_empty"], rep.get("drift_example")))
    for i, c in enumerate(vlib.read_ndjson(cases)):
        if i in (5, n // 2, n - 1):
            ctx.sample(c)

    def corrupt_case(c):
        if len(c["text"]) > 3:
            c["text"] = c["text"][1:]
            return True
        return False
    V.selftest_replay(ctx, "drv_pname", lambda p: ["replay", "--cases", p, "--out", ctx.path("replay")], cases, corrupt_case,
                      "an expected text without its first character")

    # B: code -> spec
    rep2 = vlib.run_driver("drv_pname", ["record", "--n", 3200 if q else 64000, "--out", ctx.path("rec")], env=ctx.env())
    if rep2["events"] == 0:
        raise vlib.ToolError("vacuity: no events recorded")
    V.validate(ctx, "Trace_PersonName", rep2["trace"], ("pn",), fp_trace, "seeded random component texts")
    ctx.cov["evaluations"] += rep2["events"]
    ctx.cov["distinct_nontrivial"] += rep2["nontrivial"]
    ctx.cov["traces_validated_against_impl"] += rep2["events"]

    # binding self-test: a corrupted recorded text must be rejected
    def corrupt(e):
        if e.get("res") == "ok" and len(e["text"]) > 2:
            e["text"] = e["text"][:-1]
            return True
        return False
    V.selftest_corrupt(ctx, "Trace_PersonName", rep2["trace"], corrupt, "a truncated recorded text")
    # growth beyond C17 (thorough tier only, observation only): to_person_name on stored values
    if not q:
        rep3 = vlib.run_driver("drv_pname", ["grow", "--n", 3000, "--out", ctx.path("grow")], env=ctx.env())
        V.observe(ctx, rep3["trace"], "to_person_name on stored values")
    ctx.exhaustive = False


def replay(ctx, obj):
    """bin/check C17 --replay <file>: re-execute one recorded violation alone"""
    ctx.level = "model_checking"
    ctx.rule = "replay of one recorded violation"
    V.replay_file(ctx, "drv_pname", lambda c: ["replay", "--cases", c, "--out", ctx.path("replay")], "Trace_PersonName", ("pn",), fp_trace)
