"""C34  I/O failures are always reported.

1. TLC model-checks IoPipeline.tla: an operation that writes directly or flushes its
   buffering adapter before returning reports every sink failure (all failing offsets,
   all chunkings); for the designs "never flushed" and "trailer written on drop" TLC must
   produce the counterexample (design-level explanation of the deflate findings).
2. TLC enumerates the case matrix (operation x transfer syntax x object shape x failure
   kind, Gen_Io.tla); the driver runs every public write/read operation over an
   instrumented sink/source failing at EVERY byte offset and logs what happened.
3. TLC validates the event log against the property-level spec Trace_Io.tla: success is
   acceptable only if no failure was returned to the operation and (writes) the sink holds
   the complete output after everything was dropped; a panic is never acceptable.
"""
import json
import os
import re

import vlib

SPEC = os.path.join(vlib.SPECS, "io")


def run(ctx):
    q = ctx.quick
    ctx.level = "fault_enumeration"
    ctx.rule = ("every (operation, transfer syntax, object shape, failure kind) of Gen_Io.tla x every failing byte offset "
                "0..total (quick: all offsets for small objects; thorough adds larger objects); one evaluation = one "
                "operation run with one injected failure; non-trivial = the failure was actually hit (an iofail event)")
    ctx.assumptions += [
        "sink/source instrumentation: failures are injected by the harness wrapper, kinds: io::Error and Ok(0) on a non-empty write; reads: io::Error only",
        "complete output = byte count of the fault-free run of the same operation",
    ]
    vlib.build_harness(["drv_io"])
    # 1. model
    for kind, expect_violation in (("direct", False), ("buffered_flush", False), ("buffered_noflush", True), ("trailer_at_drop", True)):
        r = vlib.tlc(SPEC, "IoPipeline", "MC_Io_%s.cfg" % kind, workers=2, timeout=600)
        ctx.cov["states"] += r.distinct
        ctx.cov["transitions"] += r.generated
        if expect_violation:
            if not (r.error == "invariant" and r.violated == "ReportedOrComplete"):
                raise vlib.ToolError("IoPipeline kind %s: expected the ReportedOrComplete counterexample, got %s" % (kind, r.error))
        else:
            if r.error:
                raise vlib.ToolError("IoPipeline kind %s: %s" % (kind, r.error_text[:1500]))
            ctx.require_coverage(r, ["Produce", "Return", "Drop"])
    # 2. cases
    cases = ctx.path("cases.ndjson")
    gr, n = vlib.tlc_generate(SPEC, "Gen_Io", "Gen_Io_quick.cfg", cases, timeout=300)
    if not q:
        gr2, n2 = vlib.tlc_generate(SPEC, "Gen_Io", "Gen_Io_thorough.cfg", cases, timeout=300, append=True)
        n += n2
    trace = ctx.path("trace.ndjson")
    rep = vlib.run_driver("drv_io", ["run", "--cases", cases, "--out", trace] + ([] if not q else ["--stride", "1"]), env=ctx.env())
    if rep["mismatch_count"]:
        raise vlib.ToolError("reference runs failed: %s" % json.dumps(rep["mismatches"][:3]))
    ctx.cov["evaluations"] = rep["runs"]
    # 3. validate
    res = vlib.validate_trace(SPEC, "Trace_Io", trace, cfg="Trace_Io.cfg", timeout=1800, heap="6g")
    ctx.add_tlc(res["result"])
    if not res["accepted"]:
        raise vlib.ToolError("trace structure rejected at line %s: %s" % (res["line"], res["record"]))
    if res["bad"]:
        with open(trace) as f:
            lines = f.readlines()
        for cl in res["bad"]:
            case = json.loads(lines[cl - 1])
            evs = [case]
            for ln in lines[cl:cl + 12]:
                e = json.loads(ln)
                if e["ev"] == "case":
                    break
                evs.append(e)
            pipe = case.get("pipe", "?")
            op, ts, shape, fk = (pipe.split("/") + ["?"] * 4)[:4]
            if any(e.get("ev") == "ret" and e.get("res") == "panic" for e in evs):
                what = "panics"
            else:
                what = "returns Ok although the %s failed" % ("sink" if case.get("dir") == "w" else "source")
            # where the failure was injected: the last 8 bytes of the complete output are what a
            # compressing adapter writes when it is finished/dropped (deflate final block)
            where = "tail" if case.get("total", 0) - case.get("fail_at", 0) <= 8 else "body"
            fp = "%s %s %s: %s [failure in %s]" % (case.get("dir"), op, ts, what, where)
            ctx.violation(fp, "operation %s (fail_at=%s of total=%s) %s" % (pipe, case.get("fail_at"), case.get("total"), what),
                          {"case": case, "events": evs})
        ctx.extra_cov["violating_cases"] = len(res["bad"])
    hit = 0
    with open(trace) as f:
        for ln in f:
            if '"iofail"' in ln:
                hit += 1
    ctx.cov["distinct_nontrivial"] = hit
    ctx.cov["traces_validated_against_impl"] = rep["runs"]
    ctx.extra_cov["trace_events"] = rep["events"]
    ctx.extra_cov["operations"] = rep["cases"]
    ctx.extra_cov["per_operation"] = rep["per_case"][:200]
    if rep["drift"]:
        ctx.note("drift: %d operations behave differently from the pipeline kind predicted in Gen_Io.tla" % rep["drift"])
    for c in vlib.read_ndjson(cases)[:3]:
        ctx.sample(c)
    ctx.exhaustive = q
