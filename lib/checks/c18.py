"""C18  Encapsulated pixel data has a correct offset table, fragments and total length.

Specification: specs/pixel/EncapsOps.tla (PS3.5 A.4: item positions, OffsetTable,
TotalLength, EncapsOk, BotMatchesWire; the implementation-shaped fragmentation of
Fragments::new) and Encaps.tla (the helper as a state machine adding frame after frame).

1. TLC model-checks Encaps: the helper model satisfies EncapsOk / Covers at every step.
2. Gen_Encaps: TLC enumerates frame lists x fragment sizes (premise: several frames =>
   one fragment per frame, as documented) and small native images.  drv_encaps runs
   Fragments::new + From<Vec<Fragments>>, encapsulate, encapsulate_single_frame, and
   transcodes every image into every registered transfer syntax with an encoder, and builds
   hand-assembled fragment sequences (1-3 fragments per frame, exact offset table) whose
   frames are retrieved in memory and after a write/read round trip; it
   writes each object to bytes and locates the real item positions; plus seeded random
   inputs (1-16 frames).
3. Trace_Encaps (TLC) judges every recorded event with the property-level operators:
   even fragments, one table entry per frame, table = offsets of the frames' first
   items (by definition and as found on the wire), (7FE0,0003) = sum of fragment
   lengths, frame_pixel_data(k) = the frame's fragment bytes.
"""
import json

import vlib
from checks import _pixel as P

NAMES = {
    "ran": "operation failed",
    "even": "odd-length fragment",
    "grouping": "fragments cannot be attributed to frames",
    "botlen": "offset table does not have one entry per frame",
    "bot": "offset table entries are not the frame item offsets",
    "first": "first offset table entry is not 0",
    "nframes": "NumberOfFrames differs from the number of frames",
    "total": "(7FE0,0003) differs from the sum of fragment lengths",
    "content": "fragments do not hold the frame bytes",
    "wire": "written items / offset table differ from the in-memory fragments",
    "fpd": "frame_pixel_data differs from the frame's fragment bytes",
}


def run(ctx):
    q = ctx.quick
    ctx.level = "model_checking"
    ctx.rule = ("TLC exhaustive over frame lists (1-%d frames, lengths 1-%d incl. odd) x fragment sizes for the helper "
                "model and as inputs of the real helpers; small native images (1-%d frames, 8/16 bit, 1/3 samples) "
                "transcoded into every registered transfer syntax with an encoder; all results, incl. the item positions "
                "found in the written bytes, judged by TLC (Trace_Encaps); seeded random inputs up to 16 frames. "
                "distinct_nontrivial = events judged." % ((3, 7, 3) if q else (4, 9, 4)))
    ctx.assumptions += [
        "helper premise (documented in core/src/value/fragments.rs): with several frames every frame is one fragment; "
        "frames are non-empty",
        "for transcoding the codec output is opaque: frames are attributed to fragments 1:1 (what the default encoder "
        "produces); for JPEG (lossy) only the structural checks apply",
        "item positions are found by scanning the written file for the Pixel Data element header (E0 7F 10 00 'OB' 00 00 FF FF FF FF)",
    ]
    vlib.build_harness(["drv_encaps"])

    P.mc(ctx, "Encaps", "MC_Encaps_quick.cfg" if q else "MC_Encaps_thorough.cfg", ["AddFrame"], workers=2)

    cases = ctx.path("cases.ndjson")
    n = P.generate(ctx, "Gen_Encaps", "Gen_Encaps_quick.cfg" if q else "Gen_Encaps_thorough.cfg", cases)
    trace = ctx.path("trace.ndjson")
    rep = vlib.run_driver("drv_encaps", ["c18", "--cases", cases, "--out", trace, "--random", 60 if q else 2000, "--big"], env=ctx.env())
    uids = [u for u, _ in rep["encoder_syntaxes"]]
    for need in ("1.2.840.10008.1.2.1.98", "1.2.840.10008.1.2.8.1", "1.2.840.10008.1.2.4.50"):
        if need not in uids:
            raise vlib.ToolError("vacuity: transfer syntax %s has no encoder in the registry built into the harness" % need)
    ctx.extra_cov["encoder_syntaxes"] = rep["encoder_syntaxes"]
    ctx.cov["evaluations"] += rep["events"]
    if rep["drift_count"]:
        ctx.note("drift: %d helper results differ from the implementation-shaped model (Fragments::new) while the "
                 "property-level verdict is taken by Trace_Encaps; first: %s" % (rep["drift_count"], json.dumps(rep["drift"][0])[:500]))
    ctx.extra_cov["model_drift_cases"] = rep["drift_count"]

    fails = P.validate_independent(ctx, "Trace_Encaps", trace, timeout=3000)
    ctx.cov["traces_validated_against_impl"] += rep["events"]
    ctx.cov["distinct_nontrivial"] += rep["events"]
    for ln, why, e in fails:
        if e["ev"] == "helper_big":
            for w in why:
                ctx.violation("from_vec: %s (frame of 16 MiB or more)" % NAMES.get(w, w),
                              "event %d: frame_len=%s frag_size=%s fragment runs=%s total=%s probes=%s" % (
                                  ln, e["frame_len"], e["frag_size"], e["runs"], e["total"], e["probes"]),
                              {"event": e, "failed_checks": why})
            continue
        if e["ev"] == "assembled":
            for w in why:
                ctx.violation("hand-assembled fragment sequence (several fragments per frame, exact offset table): %s" % (
                                  "frame_pixel_data after write/read differs from the frame's fragment bytes" if w == "fpd_reread" else NAMES.get(w, w)),
                              "event %d: fragments per frame %s, offset table %s, frame_pixel_data lengths %s (re-read %s)" % (
                                  ln, [len(g) for g in e["groups"]], e["bot"], [len(x.get("data", [])) for x in e["fpd"]],
                                  [len(x.get("data", [])) for x in e["fpd_reread"]]),
                              {"event": e, "failed_checks": why})
            continue
        what = e.get("api") if e["ev"] == "helper" else "transcode to " + str(e.get("ts_name"))
        multi = "multi-frame" if (len(e["frames"]) if e["ev"] == "helper" else e["frames"]) > 1 else "single-frame"
        for w in why:
            fp = "%s: %s (%s)" % (what, NAMES.get(w, w), multi)
            ev = dict(e)
            if len(json.dumps(ev)) > 6000:
                ev["frags"] = [len(f) for f in ev["frags"]]
                ev["fpd"] = "(omitted)"
            ctx.violation(fp, "event %d: bot=%s fragment lengths=%s total_attr=%s wire=%s" % (
                ln, e.get("bot"), [len(f) for f in e.get("frags", [])], e.get("total_attr"), json.dumps(e.get("wire"))[:200]),
                {"event": ev, "failed_checks": why})
    P.sample_lines(ctx, cases, n)

    # binding self-test: corrupt one recorded offset table entry / fragment
    def corrupt(e):
        if e["ev"] == "transcode" and e["res"] == "ok" and len(e["bot"]) >= 2:
            e["bot"][1] += 2
            return True
        return False
    evs = vlib.read_ndjson(trace)
    for e in evs:
        if corrupt(e):
            break
    else:
        raise vlib.ToolError("self-test: no multi-frame transcode event")
    st = trace + ".selftest"
    vlib.write_ndjson(st, [e])
    if not P.validate_independent(ctx, "Trace_Encaps", st):
        raise vlib.ToolError("binding self-test failed: Trace_Encaps accepted a corrupted offset table")
    ctx.extra_cov.setdefault("binding_selftests", []).append("Trace_Encaps flags a corrupted offset table entry")
    ctx.exhaustive = False
