"""Growth beyond C27 (thorough tier only): scpproxy as a transparent PDU proxy.

Proxy.tla (reader threads + one channel + main loop) is model-checked to refine ProxyObs.tla
(forwarding in order, unchanged up to the Maximum Length clamp; a close is propagated after the
closer's PDUs); real SCU <-> scpproxy binary <-> real SCP runs of TLC-generated scenarios are
recorded on both wires and validated by Trace_Proxy.  scpproxy is not the subject of a listed
property: everything found is reported as notes / extra coverage, never as a violation."""
import collections
import json
import os

import vlib


def growth(ctx, spec_dir):
    # 1. the implementation-shaped model refines the property-level proxy spec
    r = vlib.tlc(spec_dir, "Proxy", "MC_Proxy.cfg", workers=4, timeout=1800)
    ctx.check_model(r, "Proxy refines ProxyObs")
    ctx.require_coverage(r, ["ScuRead", "ScuEof", "ScpRead", "ScpEof", "MainForward", "MainShutdown", "MainWriteToClosed"])
    ctx.extra_cov["proxy_model_states"] = r.distinct
    # the hazard: write_all(..).unwrap() on a connection the peer has closed
    rp = vlib.tlc(spec_dir, "Proxy", "MC_Proxy_panic.cfg", workers=2, timeout=600, coverage=False)
    reachable = rp.error == "invariant" and rp.violated == "NoPanic"
    if not reachable and rp.error:
        raise vlib.ToolError("Proxy panic-reachability run failed: " + rp.error_text[:800])
    ctx.extra_cov["proxy_model_panic_reachable"] = reachable

    # 2. scenarios -> real binary
    cases = ctx.path("proxy_cases.ndjson")
    gr, n = vlib.tlc_generate(spec_dir, "Gen_Proxy", "Gen_Proxy.cfg", cases, timeout=1800)
    ctx.add_tlc(gr)
    vlib.build_tool("scpproxy")
    binp = os.path.join(vlib.HARNESS, "target-tools", "release", "dicom-scpproxy")
    if not os.path.exists(binp):
        raise vlib.ToolError("scpproxy binary not found at " + binp)
    errp = ctx.path("proxy_stderr.txt")
    env = dict(ctx.env(), VERIF_PROXY_STDERR=errp)
    rep = vlib.run_driver("drv_pdu", ["proxy", "--cases", cases, "--out", ctx.path("proxy"), "--proxy-bin", binp], env=env,
                          timeout=3000)
    tf = rep["trace_files"][0]
    out = vlib.validate_trace_cases(spec_dir, "Trace_Proxy", tf["path"], cfg="Trace_Proxy.cfg", reset_events=("preset",),
                                    max_rejections=8, timeout=1800, heap="8g")
    for r in out["results"]:
        ctx.add_tlc(r)
    ctx.extra_cov["proxy_scenarios_run"] = rep["cases"]
    ctx.extra_cov["proxy_wire_events_validated"] = tf["events"]
    ctx.extra_cov["proxy_trace_rejections"] = len(out["rejections"])
    ctx.extra_cov["proxy_process_deaths"] = rep["proxy_deaths"]
    ctx.note("growth (scpproxy, outside the listed properties): Proxy.tla refines ProxyObs.tla (%d states); %d scenarios through the "
             "real scpproxy binary (strict and non-strict), %d wire events validated by Trace_Proxy, %d rejected case(s)"
             % (ctx.extra_cov["proxy_model_states"], rep["cases"], tf["events"], len(out["rejections"])))
    kinds = collections.Counter()
    for rj in out["rejections"]:
        rec = rj["record"] if isinstance(rj["record"], dict) else {"ev": "?"}
        kinds[rec.get("ev")] += 1
        scen = rj["case_events"][0].get("scenario") if rj["case_events"] else None
        ctx.note("growth observation [scpproxy trace rejected at %s]: scenario %s; events %s"
                 % (rec.get("ev"), json.dumps(scen), json.dumps([(e.get("ev"), e.get("by") or e.get("to") or e.get("at") or "")
                                                                  for e in rj["case_events"][1:]])[:500]))
    panic_lines = []
    if os.path.exists(errp):
        with open(errp, errors="replace") as f:
            panic_lines = sorted({ln.strip().split(") ", 1)[-1] for ln in f if "panicked at" in ln or "called `Result::unwrap()`" in ln})
    if rep["proxy_deaths"] or reachable:
        ctx.note("growth observation [scpproxy dies]: the model reaches `panicked` (MainWriteToClosed: write_all(..).unwrap() on a "
                 "connection the peer has closed) = %s; in the real runs the scpproxy process exited %d time(s) (timing dependent; "
                 "hazard scenarios: SCP closes right after accept while the SCU keeps writing); stderr: %s"
                 % (reachable, rep["proxy_deaths"], "; ".join(panic_lines)[:600]))
    ctx.extra_cov["proxy_panic_messages"] = panic_lines[:4]
