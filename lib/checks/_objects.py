"""Helpers shared by the checks of the objects area (C09, C13)."""
import json
import os

import vlib

SPEC = os.path.join(vlib.SPECS, "objects")


def generate(module, cfg, out_path, append=False, simulate=None, depth=None, seed=None, timeout=900, heap="6g"):
    """Like vlib.tlc_generate (one worker, cases printed as <<"CASE", ToJson(..)>>) but with a
    fixed -seed, which the generators that use RandomElement in -simulate mode need."""
    extra = ["-seed", str(seed)] if seed is not None else None
    r = vlib.tlc(SPEC, module, cfg, workers=1, timeout=timeout, simulate=simulate, depth=depth, coverage=False,
                 heap=heap, extra=extra)
    n = 0
    seen = set()
    with open(out_path, "a" if append else "w") as f:
        for line in r.out.splitlines():
            m = vlib._case_re.match(line)
            if not m:
                continue
            js = vlib.tla_unescape(m.group(2))
            if js in seen:
                continue
            seen.add(js)
            f.write(js + "\n")
            n += 1
    if r.error and r.error != "deadlock":
        raise vlib.ToolError("generator %s/%s failed: %s" % (module, cfg, r.error_text[:1500]))
    if n == 0:
        raise vlib.ToolError("generator %s/%s printed no case" % (module, cfg))
    return r, n


def sample_lines(path, idxs):
    out = []
    with open(path) as f:
        for i, ln in enumerate(f):
            if i in idxs:
                out.append(json.loads(ln))
    return out
