"""C33  The storage SCU sends each file on a matching presentation context.

1. TLC model-checks StoreScu.tla (check_files + the stages of check_presentation_contexts +
   send): with the Implicit VR LE fallback filtered by SOP class the invariants ClassMatches,
   OnAccepted, TsReachable hold for all runs of 1-2 files x every acceptor policy x flags;
   with the fallback as it was coded (any Implicit VR LE context) TLC must give the
   ClassMatches counterexample.
2. TLC generates the runs (Gen_StoreScu): files over 2 SOP classes x 5 transfer syntaxes
   (Implicit/Explicit VR LE, Explicit VR BE, Deflated, Encapsulated Uncompressed), acceptor
   policy = accepted subset of the proposed contexts, --never-transcode, --ignore-sop-class,
   --concurrency 2 (async path), each with the outcome the model expects (drift notes only).
3. The real storescu binary (built from /repo's working tree) is run on real files against a
   scripted PDU-level acceptor that answers per policy and records every C-STORE request:
   context (abstract/transfer syntax, accepted), file, and whether the data set bytes decode in
   the context's transfer syntax to the file's data set.
4. TLC judges the recorded events against the property-level spec Trace_StoreScu.

Growth beyond C33 (thorough tier only; findings are notes, never violations): StoreScuExch.tla
models the whole exchange on one association (request/response sequencing, --fail-first, sync and
--concurrency path, a scripted acceptor that answers with failure/warning status, a wrong Message
ID Being Responded To, closes, aborts or rejects); TLC generates its complete behaviours, the real
binary is run against the scripted acceptor, and the recorded wire/DIMSE events are checked by
Trace_StoreScu against PS3.7 sequencing rules and the model's verdict on each run.
"""
import collections
import json
import os
import re

import vlib

SPEC = os.path.join(vlib.SPECS, "tools")

FP_CLASS_IVRLE = "file sent on a presentation context of another SOP class (Implicit VR LE fallback)"


def _why_class(why):
    for k in ("undecodable", "decoder panic", "attributes missing", "pixel bytes differ", "identifying attributes differ",
              "unknown context transfer syntax", "pixel data form does not fit the transfer syntax"):
        if why.startswith(k):
            return k
    return "other"


def _fingerprint(why, s):
    if why == "class":
        if s["ctx_ts"] == "ivrle":
            return FP_CLASS_IVRLE
        return "file sent on a presentation context of another SOP class (context transfer syntax %s)" % s["ctx_ts"]
    if why == "not_accepted":
        return "C-STORE request sent on a presentation context that was not accepted"
    if why == "unknown_file":
        return "C-STORE request for an instance that is not among the files"
    if why == "data":
        return "data set sent does not decode to the file's data set (file %s sent as %s: %s)" % (
            s.get("file_ts"), s["ctx_ts"], _why_class(s.get("why", "")))
    return "store event rejected (%s)" % why


def _split_cases(lines):
    """-> list of (first line number (1-based), [events])"""
    out, cur, start = [], None, 0
    for n, ln in enumerate(lines, 1):
        e = json.loads(ln)
        if e["ev"] == "case":
            cur, start = [e], n
        elif cur is not None:
            cur.append(e)
            if e["ev"] == "end":
                out.append((start, cur))
                cur = None
    return out


def _selftest(ctx, cases):
    """Binding self-test: corrupt one recorded field at a time in a small trace; TLC must flag each."""
    good = None
    for _, evs in cases:
        st = [e for e in evs if e["ev"] == "store"]
        if len(st) == 1 and not evs[0]["ign"] and st[0]["accepted"] and st[0]["data_ok"] and st[0]["ctx_abs"] == st[0]["file_cls"]:
            good = evs
            break
    if good is None:
        raise vlib.ToolError("self-test: no clean single-store case recorded")
    muts = [("class", {"ctx_abs": "B" if good[1]["ctx_abs"] == "A" else "A"}),
            ("data", {"data_ok": False}),
            ("not_accepted", {"accepted": False}),
            ("unknown_file", {"file": 0, "file_cls": ""}),
            ("ok", {})]
    evs = []
    for _, m in muts:
        c = dict(good[0])
        s = dict(good[1])
        s.update(m)
        if "ctx_abs" in m:   # keep the mutated context inside the policy: only the class clause may fire
            c["policy"] = list(c["policy"]) + [{"abs": m["ctx_abs"], "ts": s["ctx_ts"]}]
        evs += [c, s, good[-1]]
    p = ctx.path("selftest.ndjson")
    vlib.write_ndjson(p, evs)
    res = vlib.validate_trace(SPEC, "Trace_StoreScu", p, cfg="Trace_StoreScu.cfg", timeout=600)
    got = [b["why"] for b in res.get("bad", [])] if res["accepted"] else None
    want = [w for w, _ in muts if w != "ok"]
    if got != want:
        raise vlib.ToolError("binding self-test failed: corrupted fields %s were judged %s" % (want, got))
    ctx.extra_cov["selftest"] = "corrupted ctx_abs / data_ok / accepted / file in a recorded store event: each flagged by Trace_StoreScu; the uncorrupted copy accepted"


def _report_bad(ctx, res, lines, cases, gen):
    starts = [s for s, _ in cases]
    for b in res["bad"]:
        ln = b["l"]
        k = max(i for i, s in enumerate(starts) if s <= ln)
        evs = cases[k][1]
        s = json.loads(lines[ln - 1])
        c = evs[0]
        fp = _fingerprint(b["why"], s)
        desc = "files=%s policy=%s flags=%s -> file %s (class %s, ts %s) sent on context id %s (%s, %s) accepted=%s data_ok=%s %s" % (
            [(f["cls"], f["ts"]) for f in c["files"]], [(p["abs"], p["ts"]) for p in c["policy"]],
            " ".join(x for x, on in (("--never-transcode", c["nt"]), ("--ignore-sop-class", c["ign"]), ("--fail-first", c.get("ff")),
                                     ("--concurrency %s" % c["conc"], c["conc"])) if on) or "(default)",
            s["file"], s["file_cls"], s.get("file_ts"), s.get("ctx_id"), s["ctx_abs"], s["ctx_ts"], s["accepted"], s["data_ok"], s.get("why", ""))
        ctx.violation(fp, desc, {"case": gen[k], "events": evs})


def _extra(res):
    m = re.search(r'<<\s*"EXTRA",\s*"((?:[^"\\]|\\.)*)"\s*>>', res["result"].out, re.S)
    return json.loads(vlib.tla_unescape(m.group(1))) if m else []


TAG_TEXT = {
    "obs_abort_sent_in_reply_to_peer_abort": "after an A-ABORT from the acceptor the tool sends an A-ABORT of its own before closing (PS3.8: an aborted association is simply closed); exit status 254 on both paths",
    "obs_abort_sent_after_association_refused": "after A-ASSOCIATE-RJ, or an A-ASSOCIATE-AC without any accepted context, the tool sends A-ABORT although no association exists",
    "obs_continued_after_response_with_wrong_message_id": "a C-STORE-RSP whose Message ID Being Responded To differs from the request's Message ID is taken as the answer (the field is not checked)",
    "obs_exit_0_after_broken_association_files_untransferred": "--concurrency path without --fail-first: the association broke (rejected / closed without response) and files were not transferred, yet the exit status is 0 (the synchronous path exits 254 in the same situation)",
}


def _exchange(ctx, scu):
    """Specification growth beyond C33 (thorough tier): notes and extra coverage only."""
    r = vlib.tlc(SPEC, "StoreScuExch", "MC_StoreScuExch.cfg", workers=4, timeout=2400)
    ctx.check_model(r, "StoreScuExch")
    ctx.require_coverage(r, ["XPropose", "XReject", "XNegotiate", "XNoneAccepted", "XSelExact", "XSelCodecFree", "XSelExplicit", "XSelImplicit",
                             "XNoContextSkip", "XNoContextFailFirst", "XSendRq", "RspSuccess", "RspWarning", "RspMsgIdMismatchAccepted",
                             "RspFailureContinue", "RspFailureFailFirst", "PeerClosed", "PeerAborted", "XRelease"])
    xstates = r.distinct
    r = vlib.tlc(SPEC, "StoreScuExch", "MC_StoreScuExch_okexit.cfg", workers=2, timeout=900)
    ctx.cov["states"] += r.distinct
    ctx.cov["transitions"] += r.generated
    if not (r.error == "invariant" and r.violated == "OkMeansReleased"):
        raise vlib.ToolError("StoreScuExch: expected the OkMeansReleased counterexample (async path exit status), got %s %s" % (r.error, r.violated))
    cases_p = ctx.path("xcases.ndjson")
    gr, n = vlib.tlc_generate(SPEC, "Gen_StoreScuExch", "Gen_StoreScuExch.cfg", cases_p, timeout=1200)
    ctx.add_tlc(gr)
    gen = vlib.read_ndjson(cases_p)
    trace = ctx.path("xtrace.ndjson")
    rep = vlib.run_driver("drv_storescu", ["--bin", scu, "--cases", cases_p, "--work", ctx.path("xfs"), "--out", trace, "--jobs", 6],
                          env=ctx.env(), timeout=3000)
    if rep["cases_not_run"] or rep["worker_panics"]:
        raise vlib.ToolError("driver could not run %d exchange cases (%d worker panics)" % (rep["cases_not_run"], rep["worker_panics"]))
    res = vlib.validate_trace(SPEC, "Trace_StoreScu", trace, cfg="Trace_StoreScu.cfg", timeout=1800, heap="6g")
    ctx.add_tlc(res["result"])
    if not res["accepted"]:
        raise vlib.ToolError("exchange trace structure rejected at line %s: %s" % (res["line"], res["record"]))
    with open(trace) as f:
        lines = f.readlines()
    cases = _split_cases(lines)
    if len(cases) != len(gen):
        raise vlib.ToolError("exchange trace holds %d runs, %d were generated" % (len(cases), len(gen)))
    _report_bad(ctx, res, lines, cases, gen)        # C33 proper also holds on these runs
    evs = [json.loads(ln) for ln in lines]
    kinds = collections.Counter()
    for e in evs:
        if e["ev"] == "rsp":
            kinds["rsp:" + e["kind"]] += 1
        elif e["ev"] == "peer":
            kinds["peer:" + e["what"]] += 1
        elif e["ev"] == "assoc":
            kinds["assoc:" + e["result"]] += 1
        elif e["ev"] == "fin":
            kinds["fin:" + e["how"]] += 1
        elif e["ev"] in ("rq", "rq_part"):
            kinds[e["ev"]] += 1
    for need in ("rq", "rq_part", "rsp:ok", "rsp:fail", "rsp:warn", "rsp:wrong_msgid", "peer:close", "peer:abort", "assoc:rj", "assoc:ac",
                 "fin:release", "fin:abort", "fin:eof"):
        if not kinds.get(need):
            raise vlib.ToolError("vacuity: no %s event recorded in the exchange runs" % need)
    nfrag = sum(1 for e in evs if e["ev"] == "rq" and len(e["pdus"]) > 1)
    if not nfrag:
        raise vlib.ToolError("vacuity: no request was sent in several PDUs")
    starts = [s for s, _ in cases]
    tags = collections.Counter()
    example = {}
    for x in _extra(res):
        tags[x["tag"]] += 1
        if x["tag"] not in example:
            k = max(i for i, s in enumerate(starts) if s <= x["l"])
            c = cases[k][1][0]
            example[x["tag"]] = {"files": [(f["cls"], f["ts"]) for f in c["files"]], "accepted": [(p["abs"], p["ts"]) for p in c["policy"]],
                                 "concurrency": c["conc"], "fail_first": c["ff"], "acceptor_script": c["script"],
                                 "event": {k2: v for k2, v in json.loads(lines[x["l"] - 1]).items() if k2 not in ("pdvs", "pdus")},
                                 "exit": cases[k][1][-1].get("exit")}
    for tag, cnt in sorted(tags.items()):
        if tag.startswith("obs_"):
            ctx.note("beyond C33, observation (%d runs/events): %s; e.g. %s" % (cnt, TAG_TEXT.get(tag, tag), json.dumps(example[tag])))
        else:
            ctx.note("beyond C33, the tool deviates from StoreScuExch.tla / PS3.7 sequencing: %s in %d events, e.g. %s" % (tag, cnt, json.dumps(example[tag])))
    _selftest_wire(ctx, cases)
    exact = sum(1 for g in gen if g["expect_x"]["exact"])
    ctx.extra_cov["exchange"] = {
        "model_states": xstates,
        "runs_validated": len(cases),
        "runs_compared_exactly_with_model": exact,
        "requests_checked": kinds["rq"],
        "requests_in_several_pdus": nfrag,
        "events": dict(sorted(kinds.items())),
        "findings_by_tag": dict(sorted(tags.items())),
        "deviations_from_model_or_ps37": sum(v for k, v in tags.items() if not k.startswith("obs_")),
        "selftest": "corrupted msgid / last-fragment flag / PDU length / early bytes / exit status in recorded events: each flagged by Trace_StoreScu",
    }


def _selftest_wire(ctx, cases):
    """Corrupt recorded wire fields; the growth part of Trace_StoreScu must flag each."""
    good = None
    for _, evs in cases:
        c = evs[0]
        rqs = [e for e in evs if e["ev"] == "rq"]
        if c["conc"] == 0 and c["script"]["kind"] == "ok" and len(rqs) == 2 and len(rqs[0]["pdus"]) > 1 and evs[-1]["exit"] == 0:
            good = evs
            break
    if good is None:
        raise vlib.ToolError("wire self-test: no clean two-request run recorded")

    def mutated(f):
        evs = json.loads(json.dumps(good))
        f(evs, [e for e in evs if e["ev"] == "rq"])
        return evs

    def m_msgid(evs, rqs):
        rqs[1]["msgid"] = rqs[0]["msgid"]

    def m_flag(evs, rqs):
        rqs[0]["pdvs"][-1][2] = 0

    def m_pdu(evs, rqs):
        rqs[0]["pdus"][1] = evs[0]["max_len"] + 1

    def m_early(evs, rqs):
        rqs[0]["early"] = 10

    def m_exit(evs, rqs):
        evs[-1]["exit"] = 254

    muts = [("rq_message_id_reused", m_msgid), ("rq_fragment_flags_or_order_wrong", m_flag), ("pdu_longer_than_acceptor_max_length", m_pdu),
            ("next_message_sent_before_response", m_early), ("exit_status_differs_from_model", m_exit)]
    evs = []
    for _, f in muts:
        evs += mutated(f)
    evs += good
    p = ctx.path("selftest_wire.ndjson")
    vlib.write_ndjson(p, evs)
    res = vlib.validate_trace(SPEC, "Trace_StoreScu", p, cfg="Trace_StoreScu.cfg", timeout=600)
    got = [x["tag"] for x in _extra(res)] if res["accepted"] else None
    if got != [t for t, _ in muts]:
        raise vlib.ToolError("wire self-test failed: expected %s, TLC reported %s" % ([t for t, _ in muts], got))


def run(ctx):
    q = ctx.quick
    ctx.level = "model_checking"
    ctx.rule = ("every run generated by TLC from Gen_StoreScu (%s tier): files x acceptor policy x flags; one evaluation = one run "
                "of the real storescu binary against the scripted acceptor; distinct_nontrivial = runs in which at least one "
                "C-STORE request was received" % ctx.tier)
    ctx.assumptions += [
        "SOP class A = Secondary Capture Image Storage, B = CT Image Storage; files are 8-bit single-frame monochrome images with even frame size (16x16, every fourth run 64x64 with acceptor max PDU length 4096 so that the data set is fragmented)",
        "data set equality on a projection: SOP class/instance UID, patient id, rows, columns, pixel bytes (native value bytes, or concatenated fragments when encapsulated), and the pixel data is encapsulated exactly when the context's transfer syntax is",
        "request <-> file matching by the command's Affected SOP Instance UID (unique per file)",
        "a file that is not sent at all is not a violation (the statement constrains how files are sent); differences from the expected selection are reported as drift notes",
    ]
    vlib.build_harness(["drv_storescu"])
    scu = vlib.build_tool("storescu")
    # 1. model
    r = vlib.tlc(SPEC, "StoreScu", "MC_StoreScu_class_checked.cfg", workers=4, timeout=900)
    ctx.check_model(r, "StoreScu class_checked")
    ctx.require_coverage(r, ["Propose", "Negotiate", "SelExact", "SelCodecFree", "SelExplicit", "SelImplicit", "NoContext", "Send", "Release"])
    r = vlib.tlc(SPEC, "StoreScu", "MC_StoreScu_as_coded.cfg", workers=2, timeout=900)
    ctx.cov["states"] += r.distinct
    ctx.cov["transitions"] += r.generated
    if not (r.error == "invariant" and r.violated == "ClassMatches"):
        raise vlib.ToolError("StoreScu as_coded mode: expected the ClassMatches counterexample, got %s %s" % (r.error, r.violated))
    # 2. cases
    cases_p = ctx.path("cases.ndjson")
    gr, n = vlib.tlc_generate(SPEC, "Gen_StoreScu", "Gen_StoreScu_quick.cfg" if q else "Gen_StoreScu_thorough.cfg", cases_p, timeout=1200)
    ctx.add_tlc(gr)
    gen = vlib.read_ndjson(cases_p)
    if n < 1000:
        raise vlib.ToolError("generator produced only %d cases" % n)
    # 3. the real binary
    trace = ctx.path("trace.ndjson")
    rep = vlib.run_driver("drv_storescu", ["--bin", scu, "--cases", cases_p, "--work", ctx.path("fs"), "--out", trace, "--jobs", 6],
                          env=ctx.env(), timeout=3000)
    if rep["cases_not_run"] or rep["worker_panics"]:
        raise vlib.ToolError("driver could not run %d cases (%d worker panics)" % (rep["cases_not_run"], rep["worker_panics"]))
    ctx.cov["evaluations"] = rep["cases"]
    if rep["timeouts"]:
        ctx.note("%d runs of storescu were killed by the %ds guard (not judged by C33)" % (rep["timeouts"], 90))
        if rep["timeouts"] > rep["cases"] // 50:
            raise vlib.ToolError("too many runs hit the kill guard: %d" % rep["timeouts"])
    # 4. validate
    res = vlib.validate_trace(SPEC, "Trace_StoreScu", trace, cfg="Trace_StoreScu.cfg", timeout=1800, heap="6g")
    ctx.add_tlc(res["result"])
    if not res["accepted"]:
        raise vlib.ToolError("trace structure rejected at line %s: %s" % (res["line"], res["record"]))
    with open(trace) as f:
        lines = f.readlines()
    cases = _split_cases(lines)
    if len(cases) != len(gen):
        raise vlib.ToolError("trace holds %d runs, %d were generated" % (len(cases), len(gen)))
    _report_bad(ctx, res, lines, cases, gen)
    # drift against the implementation-shaped model (notes only) + coverage
    matrix = collections.Counter()
    drift = collections.Counter()
    drift_example = {}
    nontrivial = 0
    frag = 0
    async_stores = 0
    for k, (_, evs) in enumerate(cases):
        c, g = evs[0], gen[k]
        stores = [e for e in evs if e["ev"] == "store"]
        if stores:
            nontrivial += 1
        for s in stores:
            matrix[(s.get("file_ts"), s["ctx_ts"])] += 1
            if s["data_len"] > c["max_len"] - 100:
                frag += 1
            if c["conc"]:
                async_stores += 1
        for fi, ex in enumerate(g["expect"], 1):
            obs = [(s["ctx_abs"], s["ctx_ts"]) for s in stores if s["file"] == fi]
            want = sorted((p["abs"], p["ts"]) for p in ex["cands"])
            if not obs and not want:
                continue
            if len(obs) == 1 and obs[0] in want:
                continue
            kind = "expected stage %s, %s" % (ex["stage"], "not sent" if not obs else ("sent %d times" % len(obs) if len(obs) > 1 else "sent on another context"))
            drift[kind] += 1
            drift_example.setdefault(kind, {"files": g["files"], "policy": g["policy"], "nt": g["nt"], "ign": g["ign"], "conc": g["conc"],
                                            "file": fi, "expected": want, "observed": obs, "exit": evs[-1].get("exit")})
    for kind, cnt in sorted(drift.items()):
        ctx.note("drift from StoreScu.tla (class_checked): %s in %d file sends, e.g. %s" % (kind, cnt, json.dumps(drift_example[kind])))
    # vacuity: every file transfer syntax was seen on the wire, unchanged and converted
    for ts in ("ivrle", "evrle", "evrbe", "deflated", "encaps"):
        if not matrix.get((ts, ts)):
            raise vlib.ToolError("vacuity: no file in %s was ever sent in its own transfer syntax" % ts)
        if not any(v for (a, b), v in matrix.items() if a == ts and b != ts):
            raise vlib.ToolError("vacuity: no file in %s was ever sent converted" % ts)
    if not frag or not async_stores:
        raise vlib.ToolError("vacuity: fragmented sends=%d async sends=%d" % (frag, async_stores))
    _selftest(ctx, cases)
    ctx.cov["distinct_nontrivial"] = nontrivial
    ctx.cov["traces_validated_against_impl"] = len(cases)
    ctx.extra_cov["store_requests_received"] = rep["stores"]
    ctx.extra_cov["associations"] = rep["assocs"]
    ctx.extra_cov["stores_file_ts_to_context_ts"] = {"%s->%s" % k: v for k, v in sorted(matrix.items(), key=lambda kv: (str(kv[0][0]), str(kv[0][1])))}
    ctx.extra_cov["stores_fragmented"] = frag
    ctx.extra_cov["stores_async_path"] = async_stores
    ctx.extra_cov["violating_store_requests"] = len(res["bad"])
    ctx.extra_cov["drift_file_sends"] = sum(drift.values())
    for c in gen[:1] + gen[len(gen) // 2:len(gen) // 2 + 2]:
        ctx.sample(c)
    ctx.exhaustive = True
    if not q:
        _exchange(ctx, scu)
