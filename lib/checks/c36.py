"""C36  Application entity addresses print and parse back unchanged.

1. TLC checks on the instance space AeAddrInst (titles over a small alphabet without '@',
   incl. spaces and the separators of the address syntax, x IPv4 / bracketed IPv6 (with
   scope id, IPv4-mapped) socket addresses / host:port strings x address type) that
   Parse(Print(a)) = a for AeAddr and FullAeAddr, that an address without a title parses
   back without one, and that the premise (no '@' in the title) is needed.
2. Binding A: the same run prints every instance with the text Print prescribes and the
   value Parse reads back; drv_aeaddr runs Display / FromStr of AeAddr<T> / FullAeAddr<T>
   (T = SocketAddr, SocketAddrV4, SocketAddrV6, String) on each.
3. The recorded events, plus seeded random titles (printable ASCII without '@') and
   addresses, are judged by Trace_AeAddr.
"""
import json
import os

import vlib
from checks import _ps38pdu as H

SPEC = H.SPEC


def fingerprint(rec, evs):
    if not isinstance(rec, dict):
        return "unparsed"
    what = "FullAeAddr" if rec.get("full") else "AeAddr"
    tit = "with title" if (rec.get("title") or {}).get("some") else "without title"
    if rec.get("pres") != "ok":
        return "%s<%s> %s: printed text does not parse (%s)" % (what, rec.get("ty"), tit, rec.get("pres"))
    if rec.get("ptitle") != rec.get("title"):
        return "%s<%s> %s: title changes in print/parse" % (what, rec.get("ty"), tit)
    return "%s<%s> %s: network address changes in print/parse" % (what, rec.get("ty"), tit)


def judge(ctx, path, label):
    return H.judge(ctx, "Trace_AeAddr", path, "Trace_AeAddr_strict.cfg", "Trace_AeAddr_prop.cfg", ("ae",),
                   fingerprint, label)


def selftest(ctx, trace_path):
    allevs = vlib.read_ndjson(trace_path)
    j = next(k for k, e in enumerate(allevs) if e["title"]["some"])
    # a window of the trace that contains a titled address
    start = max(0, j - 10)
    evs = allevs[start:start + 50]
    i = j - start
    muts = []
    m = json.loads(json.dumps(evs)); m[i]["ptitle"]["v"] += "x"
    muts.append(("title read back", m, i + 1))
    m = json.loads(json.dumps(evs)); m[i]["paddr"] = m[i]["paddr"][:-1] + ("1" if m[i]["paddr"][-1] != "1" else "2")
    muts.append(("address read back", m, i + 1))
    m = json.loads(json.dumps(evs)); m[0]["ptitle"] = {"some": True, "v": "X"} if not m[0]["title"]["some"] else {"some": False, "v": ""}
    muts.append(("presence of a title", m, 1))
    for k, (what, m, line) in enumerate(muts):
        p = ctx.path("selftest_%d.ndjson" % k)
        vlib.write_ndjson(p, m)
        H.must_reject(ctx, "Trace_AeAddr", p, "Trace_AeAddr_prop.cfg", what, expect_line=line)
    m = json.loads(json.dumps(evs)); m[i]["printed"] = m[i]["printed"].replace("@", "@@", 1)
    p = ctx.path("selftest_text.ndjson")
    vlib.write_ndjson(p, m)
    H.must_reject(ctx, "Trace_AeAddr", p, "Trace_AeAddr_strict.cfg", "printed text (implementation-shaped level)", expect_line=i + 1)
    ctx.extra_cov["binding_selftests"] = len(muts) + 1


def run(ctx):
    q = ctx.quick
    ctx.level = "model_checking"
    ctx.rule = ("TLC checks Parse(Print(a)) = a on every address of the instance space and prints each with the prescribed "
                "text; Display/FromStr of AeAddr<T>/FullAeAddr<T> for the four address types are run on each and on seeded "
                "random titles/addresses; all recorded events are judged by TLC. distinct_nontrivial = distinct "
                "(type, title, address) cases with a title.")
    ctx.assumptions += [
        "premise: the title contains no '@' and is not empty (an empty title part is the documented text form of 'no title'); "
        "the network address string itself may contain '@' (AeAddr<String>/FullAeAddr<String>): untitled it is printed "
        "with a leading '@'",
        "network addresses are given by their canonical text (the value is obtained by parsing it; the driver checks that the "
        "type prints the same text); IPv6 flow info has no text form and is 0",
        "titles are printable ASCII (AE titles); host:port strings use letters, digits, '-', '_', '.' and '@'",
    ]
    vlib.build_harness(["drv_aeaddr"])

    # 1+2. one TLC run: theorems as invariants (ThPremise ThAddrOk ThAe ThFull, the two ASSUMEs) + cases
    cases = ctx.path("cases.ndjson")
    gr, n = vlib.tlc_generate(SPEC, "Gen_AeAddr", "Gen_AeAddr_%s.cfg" % ("quick" if q else "thorough"), cases,
                              timeout=3000, heap="6g")
    ctx.add_tlc(gr)
    vlib.log("[C36] theorems model-checked on %d addresses, %d cases generated in %.1fs" % (gr.distinct, n, gr.wall_s))
    if gr.distinct < 1000:
        raise vlib.ToolError("vacuity: instance space has only %d addresses" % gr.distinct)
    ctx.extra_cov["instances_model_checked"] = gr.distinct
    with open(cases) as f:
        at_untitled = sum(1 for ln in f if '"some":false' in ln.split('"addr"')[0] and "@" in json.loads(ln)["addr"])
    if at_untitled < 4:
        raise vlib.ToolError("vacuity: only %d untitled addresses containing '@' were generated" % at_untitled)
    ctx.extra_cov["untitled_addresses_containing_at"] = at_untitled
    rep = vlib.run_driver("drv_aeaddr", ["replay", "--cases", cases, "--out", ctx.path("replay")], env=ctx.env())
    if rep["harness_error_count"]:
        raise vlib.ToolError("driver could not build %d addresses: %s" % (rep["harness_error_count"], rep["harness_errors"]))
    need = {"ae/sa", "ae/str", "ae/v4", "ae/v6", "full/sa", "full/str", "full/v4", "full/v6"}
    if not need <= set(rep["by_type"]):
        raise vlib.ToolError("vacuity: address types missing: %s" % sorted(need - set(rep["by_type"])))
    ctx.cov["evaluations"] += rep["cases"]
    events = judge(ctx, rep["trace_files"][0]["path"], "replay of TLC cases")
    if rep["mismatch_count"]:
        ctx.note("%d case(s) where text or parse result differ from AeAddr.tla (judged by the trace validation); first: %s"
                 % (rep["mismatch_count"], json.dumps(rep["mismatches"][0])[:500]))
    ctx.extra_cov["expected_value_mismatches"] = rep["mismatch_count"]
    with open(cases) as f:
        lines = f.readlines()
    for i in (1, len(lines) // 2, len(lines) - 1):
        ctx.sample(json.loads(lines[i]))

    # 3. seeded random
    rep2 = vlib.run_driver("drv_aeaddr", ["random", "--n", 2000 if q else 40000, "--out", ctx.path("random")], env=ctx.env())
    if rep2["harness_error_count"]:
        raise vlib.ToolError("driver could not build %d random addresses: %s" % (rep2["harness_error_count"], rep2["harness_errors"]))
    ctx.cov["evaluations"] += rep2["cases"]
    events += judge(ctx, rep2["trace_files"][0]["path"], "seeded random addresses")
    distinct = set()
    for tf in (rep["trace_files"][0], rep2["trace_files"][0]):
        for e in vlib.read_ndjson(tf["path"]):
            if e["title"]["some"]:
                distinct.add((e["full"], e["ty"], e["title"]["v"], e["addr"]))
    ctx.cov["traces_validated_against_impl"] = events
    ctx.cov["distinct_nontrivial"] = len(distinct)
    ctx.extra_cov["trace_events_validated"] = events
    ctx.exhaustive = False

    if not q or os.environ.get("VERIF_SELFTEST"):
        selftest(ctx, rep["trace_files"][0]["path"])
