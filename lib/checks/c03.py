"""C03  Element and item headers follow the PS3.5 wire layout.

1. TLC enumerates 34 VRs x 3 transfer syntaxes x boundary lengths x boundary tags
   (+ one standard tag per VR, item / delimiter headers); for each case it computes the
   bytes PS3.5 7.1/7.5 prescribe (PS35!HeaderBytes) and what a decoder must report
   (PS35!DecodeHeader), and checks the reference's own round trip and the
   16-bit/32-bit class split (invariants RoundTrip, ShortForm).
2. drv_header executes every case on the real encoders (concrete types and the
   registry's dyn encoders) and decoders (concrete, dyn, adaptive once locked):
   bytes, reported counts, decoded tag/VR/length/bytes-read must equal TLC's;
   a 16-bit-form header whose length does not fit must be an error.
3. All 65 536 two-byte VR codes are executed; Trace_VR (TLC) accepts the log iff
   recognised <=> code in PS35!VRCodes.
"""
import json
import os

import vlib
from checks import _ps35 as P

SPEC = os.path.join(vlib.SPECS, "ps35")


def run(ctx):
    ctx.level = "model_checking"
    ctx.rule = ("TLC enumerates the header case space (VR x TS x boundary length x boundary tag, item/delimiter headers) "
                "with expected bytes from PS35!HeaderBytes; each case is executed on every encoder/decoder entry point; "
                "the full 2-byte VR code space is executed and judged by TLC (Trace_VR). distinct_nontrivial = distinct "
                "header cases with a non-zero length or a non-implicit syntax.")
    ctx.assumptions += [
        "Implicit VR decode results use the dictionary facts of PS35Dict.tla; the driver checks each fact against "
        "the dictionary dicom-rs ships (disagreement = tool error)",
        "tags and lengths are boundary samples (as the property's quantifier says), VRs/syntaxes/codes exhaustive",
    ]
    vlib.build_harness(["drv_header"])
    if P.replay(ctx, "C03"):
        return
    cases = ctx.path("hdr_cases.ndjson")
    gr, n = vlib.tlc_generate(SPEC, "Gen_Hdr", "Gen_Hdr.cfg", cases, timeout=900)
    ctx.add_tlc(gr)
    if n < 5000:
        raise vlib.ToolError("header generator produced only %d cases" % n)
    env = ctx.env()
    if os.environ.get("VERIF_SELFTEST"):
        env["VERIF_SELFTEST"] = os.environ["VERIF_SELFTEST"]
    rep = vlib.run_driver("drv_header", ["cases", "--cases", cases], env=env)
    if rep["premise_fail"]:
        raise vlib.ToolError("dictionary facts of PS35Dict.tla disagree with the shipped dictionary: %s" % rep["premise_fail"])
    ctx.cov["evaluations"] += rep["encodes"] + rep["decodes"]
    nontrivial = 0
    with open(cases) as f:
        for i, ln in enumerate(f):
            c = json.loads(ln)
            if c["kind"] != "hdr" or c["ts"] != "IVRLE" or c["len"] != [0, 0, 0, 0]:
                nontrivial += 1
            if i in (0, n // 3, n - 1):
                ctx.sample(c)
    ctx.cov["distinct_nontrivial"] += nontrivial
    ctx.extra_cov["overflow_cases_16bit"] = rep["overflow_cases"]
    if rep["overflow_cases"] == 0:
        raise vlib.ToolError("vacuity: no 16-bit overflow case generated")
    for m in rep["mismatches"]:
        ctx.violation(m["fp"], json.dumps({k: v for k, v in m.items() if k != "case"})[:400] + " case=" + json.dumps(m["case"])[:400], m)
    if rep["mismatch_count"] > len(rep["mismatches"]):
        ctx.note("%d mismatches in total (first %d kept)" % (rep["mismatch_count"], len(rep["mismatches"])))

    # VR code space
    tr = ctx.path("vrcodes.ndjson")
    rep2 = vlib.run_driver("drv_header", ["vrcodes", "--out", tr], env=env)
    ctx.cov["evaluations"] += rep2["cases"]
    if rep2["panics"]:
        ctx.violation("VR::from_binary panics", "%d codes panic" % rep2["panics"], rep2)
    res = vlib.validate_trace(SPEC, "Trace_VR", tr, cfg="Trace_VR.cfg", timeout=600)
    ctx.add_tlc(res["result"])
    ctx.cov["traces_validated_against_impl"] += 1
    ctx.extra_cov["vr_codes_executed"] = rep2["cases"]
    ctx.cov["distinct_nontrivial"] += 34
    if not res["accepted"]:
        r = res["record"]
        ctx.violation("VR code table: recognised set differs from the 34 defined codes",
                      "first byte %s: recognised second bytes %s" % (r.get("a"), r.get("rec")), r)
    ctx.exhaustive = True
