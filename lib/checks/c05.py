"""C05  Untrusted input never makes a reader panic, abort or hang.

Fault enumeration with the fault layer specs/malform/Malform.tla:

1. `drv_malform seeds` produces the valid seed encodings with the real library (files in
   IVRLE/EVRLE/EVRBE/Deflated with nested sequences, bare data sets with undefined and defined
   lengths, file meta group, all PDU kinds, DICOM JSON, native 1/8/16-bit / RLE / Encapsulated
   Uncompressed / Deflated Image Frame / JPEG objects, tag / selector / date / time / date-time /
   range strings) together with their FIELD layout.
2. TLC (Gen_Malform.tla) enumerates the mutation space of every seed: all single mutations
   (quick: the full set for the "full" seeds, the structural core or the pixel-relevant set for
   the others; thorough: the full set everywhere) and, thorough only, the coupled pairs of core
   mutations.  Every case carries the abstract descriptors and the byte-level edits computed by
   the TLA+ operators (and the materialised bytes for small seeds).
3. `drv_malform run` materialises each case and feeds it to EVERY entry point applicable to the
   seed kind, in a release build, inside a forked worker with a memory limit; a crash of the
   worker is attributed to the (case, entry point) being executed ("abort"), a case burning CPU
   without progress is killed ("hang").
4. TLC validates the outcome trace against the property-level spec Trace_Malform.tla
   (every outcome is "ok" or "err"); every violating case is reported in one pass.
A machinery self-test (entry points that really panic / exhaust memory / overflow the stack /
spin) must be observed as panic / abort / abort / hang and be flagged by Trace_Malform.
"""
import json
import os
import re
import subprocess
import time

import vlib

SPEC = os.path.join(vlib.SPECS, "malform")
DRV = "drv_malform"
SHARDS = 4
MEM_MIB = 256


def _driver(args, env, timeout=3000):
    e = dict(os.environ)
    e.update(env)
    p = subprocess.run([vlib.driver_path(DRV)] + [str(a) for a in args], cwd=vlib.VERIF, env=e, timeout=timeout,
                       stdout=subprocess.PIPE, stderr=subprocess.STDOUT, text=True, errors="replace")
    rep = None
    for line in p.stdout.splitlines():
        if line.startswith("REPORT "):
            rep = json.loads(line[7:])
    if rep is None:
        raise vlib.ToolError("drv_malform %s produced no REPORT (rc=%d): %s" % (args[0], p.returncode, p.stdout[-1500:]))
    return rep


def _run_sharded(ctx, seeds, cases_path, tag, hang_cpu=10):
    """split the case file into contiguous shards, run one driver (fork server) per shard in
    parallel, concatenate traces / details in case order.  Returns (trace path, details, summary)."""
    with open(cases_path) as f:
        lines = f.readlines()
    n = len(lines)
    k = max(1, min(SHARDS, n // 2000 or 1))
    size = (n + k - 1) // k
    procs = []
    env = dict(os.environ)
    env.update(ctx.env())
    for s in range(k):
        lo = s * size
        part = lines[lo:lo + size]
        if not part:
            continue
        wdir = ctx.path("%s_w%d" % (tag, s))
        os.makedirs(wdir, exist_ok=True)
        cp = os.path.join(wdir, "cases.ndjson")
        with open(cp, "w") as f:
            f.writelines(part)
        args = [vlib.driver_path(DRV), "run", "--seeds", seeds, "--cases", cp, "--out", os.path.join(wdir, "trace.ndjson"),
                "--details", os.path.join(wdir, "details.ndjson"), "--work", wdir, "--mem-mib", str(MEM_MIB),
                "--id-offset", str(lo), "--hang-cpu", str(hang_cpu)]
        procs.append((wdir, subprocess.Popen(args, cwd=vlib.VERIF, env=env, stdout=subprocess.PIPE, stderr=subprocess.STDOUT,
                                             text=True, errors="replace")))
    trace = ctx.path("%s_trace.ndjson" % tag)
    details = []
    summ = {"executions": 0, "outcomes": {}, "mixed_outcome_cases": 0, "transport_checked": 0, "worker_incidents": 0,
            "worker_cpu_s": 0.0, "input_bytes": 0, "cases": 0}
    with open(trace, "w") as tf:
        for wdir, p in procs:
            out, _ = p.communicate(timeout=6 * 3600)
            rep = None
            for line in out.splitlines():
                if line.startswith("REPORT "):
                    rep = json.loads(line[7:])
            if rep is None:
                raise vlib.ToolError("drv_malform run produced no REPORT (rc=%s): %s" % (p.returncode, out[-1500:]))
            if rep["mismatch_count"]:
                raise vlib.ToolError("drv_malform transport problem: %s" % json.dumps(rep["mismatches"][:3]))
            for key in ("executions", "mixed_outcome_cases", "transport_checked", "worker_incidents", "worker_cpu_s", "input_bytes", "cases"):
                summ[key] += rep[key]
            for o, c in rep["outcomes"].items():
                summ["outcomes"][o] = summ["outcomes"].get(o, 0) + c
            with open(os.path.join(wdir, "trace.ndjson")) as f:
                for ln in f:
                    tf.write(ln)
            details += vlib.read_ndjson(os.path.join(wdir, "details.ndjson"))
    if summ["cases"] != n:
        raise vlib.ToolError("%d cases generated but %d executed" % (n, summ["cases"]))
    return trace, details, summ


def _norm(msg, n=60):
    return re.sub(r"\d+", "N", msg or "")[:n].strip()


def _label(seed, m):
    """abstract name of what a mutation touches: the owning element's tag or the field's own name"""
    if not m.get("f"):
        return m["m"]
    fs = seed["fields"]
    f = fs[m["f"] - 1]
    if f["k"] in ("byte", "be16", "text", "key", "pdu_type", "pdu_len", "pdv_len", "rle_count", "rle_off", "bot") or seed["kind"] not in ("file", "dataset", "meta"):
        return "%s(%s)" % (m["m"], f["n"] or f["k"])
    owner = next((g["n"] for g in reversed(fs[:m["f"]]) if g["k"] == "tag" and g["o"] <= f["o"]), f["k"])
    return "%s(%s)" % (m["m"], owner)


def _fingerprint(d, seed=None, case=None):
    ep = d["ep"].split("[")[0]
    if d["outcome"] == "panic":
        loc = d.get("loc", "").replace("/repo/", "").split(":")[0]
        if "/.cargo/" in loc or loc.startswith("/"):
            loc = "/".join(loc.split("/")[-3:])
        return "%s: panic (%s: %s)" % (ep, loc, _norm(d["msg"]))
    # no code location is available for an abort or a hang: the mutated attributes tell the defects apart
    via = " via " + "+".join(_label(seed, m) for m in case["muts"]) if seed and case else ""
    return "%s: %s (%s)%s" % (ep, d["outcome"], _norm(d["msg"]), via)


def _validate(ctx, trace, chunk=120000):
    """TLC judges the trace (in chunks of at most `chunk` case events; every chunk gets the eps
    header lines).  Returns the list of violating case ids."""
    with open(trace) as f:
        lines = f.readlines()
    head = [ln for ln in lines if '"ev":"eps"' in ln]
    body = [ln for ln in lines if '"ev":"case"' in ln]
    if len(head) + len(body) != len(lines):
        raise vlib.ToolError("unexpected lines in the trace")
    bad_ids = []
    for c in range(0, max(1, len(body)), chunk):
        part = body[c:c + chunk]
        path = trace + ".chunk%d" % (c // chunk)
        with open(path, "w") as f:
            f.writelines(head)
            f.writelines(part)
        res = vlib.validate_trace(SPEC, "Trace_Malform", path, cfg="Trace_Malform.cfg", timeout=3000, heap="6g")
        ctx.add_tlc(res["result"])
        if not res["accepted"]:
            raise vlib.ToolError("trace structure rejected at line %s: %s" % (res["line"], str(res["record"])[:300]))
        for ln in res["bad"]:
            bad_ids.append(json.loads(part[ln - 1 - len(head)])["id"])
        ctx.cov["traces_validated_against_impl"] += len(part)
        os.remove(path)
    return bad_ids


def _selftest(ctx):
    """the harness must be able to observe every outcome, and the trace spec must flag them"""
    seeds = ctx.path("st_seeds.ndjson")
    cases = ctx.path("st_cases.ndjson")
    vlib.write_ndjson(seeds, [{"name": "st", "kind": "selftest", "ts": "", "tier": "full", "n": 4, "bytes": [1, 2, 3, 4], "fields": []}])
    vlib.write_ndjson(cases, [{"seed": "st", "muts": [], "edits": []}])
    trace, details, summ = _run_sharded(ctx, seeds, cases, "st", hang_cpu=2)
    got = {d["ep"]: d["outcome"] for d in details}
    want = {"selftest[panic]": "panic", "selftest[alloc]": "abort", "selftest[stack]": "abort", "selftest[spin]": "hang"}
    if got != want:
        raise vlib.ToolError("harness self-test: expected %s, observed %s (%s)" % (want, got, details))
    bad = _validate(ctx, trace)
    if bad != [1]:
        raise vlib.ToolError("Trace_Malform did not flag the self-test case: %s" % bad)
    ctx.cov["traces_validated_against_impl"] -= 1
    ctx.extra_cov["machinery_selftest"] = "panic / allocation abort / stack overflow abort / spin all observed and flagged by Trace_Malform"


def run(ctx):
    q = ctx.quick
    ctx.level = "fault_enumeration"
    ctx.rule = ("every seed of `drv_malform seeds` x every mutation of Malform.tla enumerated by TLC (quick: all single mutations "
                "- full set for the 'full' seeds, structural core / pixel-relevant set for the others; thorough: full single "
                "set everywhere + coupled pairs of core mutations) x every entry point applicable to the seed kind; one "
                "evaluation = one entry point executed on one materialised input; non-trivial = inputs on which the entry "
                "points disagree (some return a value, some an error)")
    ctx.assumptions += [
        "inputs are those reachable from the seeds by <= 2 modelled mutations (pairs: only coupled ones, thorough) plus seeded garbage (VERIF_SEED); not coverage-guided fuzzing",
        "the inside of JPEG entropy-coded data and of deflate streams is opaque (flipped / truncated / replaced by garbage only)",
        "worker memory limit %d MiB (RLIMIT_AS): an allocation beyond it aborts the process and counts as 'abort'; hang = %d CPU-seconds of the worker without progress on one (case, entry point)" % (MEM_MIB, 10),
        "worker stack 8 MiB (default main thread stack); composite entry points (decode / dump after reading) count the prerequisite read only under its own entry point",
    ]
    vlib.build_harness([DRV])
    env = ctx.env()
    # 0. machinery self-test
    t0 = time.time()
    _selftest(ctx)
    vlib.log("[C05] machinery self-test ok (%.1fs)" % (time.time() - t0))
    # 1. seeds
    seeds = ctx.path("seeds.ndjson")
    rep = _driver(["seeds", "--out", seeds], env)
    nseeds = rep["cases"]
    # 2. cases
    cases = ctx.path("cases.ndjson")
    genv = {"SEEDS": seeds}
    t0 = time.time()
    if q:
        gr, n = vlib.tlc_generate(SPEC, "Gen_Malform", "Gen_Malform_quick.cfg", cases, env=genv, timeout=1500)
    else:
        gr, n = vlib.tlc_generate(SPEC, "Gen_Malform", "Gen_Malform_thorough.cfg", cases, env=genv, timeout=3000)
        gr2, n2 = vlib.tlc_generate(SPEC, "Gen_Malform", "Gen_Malform_pairs.cfg", cases, env=genv, timeout=6000, append=True, heap="8g")
        ctx.extra_cov["pair_cases"] = n2
        n += n2
    ctx.extra_cov["tlc_generation_s"] = round(time.time() - t0, 1)
    vlib.log("[C05] TLC generated %d cases from %d seeds (%.1fs)" % (n, nseeds, time.time() - t0))
    if n < 1000:
        raise vlib.ToolError("generator produced only %d cases" % n)
    # 3. execute
    t0 = time.time()
    trace, details, summ = _run_sharded(ctx, seeds, cases, "main")
    vlib.log("[C05] %d entry point executions, outcomes %s, worker cpu %.1fs (%.1fs)" % (
        summ["executions"], summ["outcomes"], summ["worker_cpu_s"], time.time() - t0))
    # 4. judge
    t0 = time.time()
    bad_ids = _validate(ctx, trace)
    vlib.log("[C05] Trace_Malform validated %d case events, %d violating (%.1fs)" % (summ["cases"], len(bad_ids), time.time() - t0))
    by_id = {}
    for d in details:
        by_id.setdefault(d["id"], []).append(d)
    if set(bad_ids) != set(by_id):
        raise vlib.ToolError("cases flagged by Trace_Malform (%d) and driver details (%d) disagree" % (len(set(bad_ids)), len(by_id)))
    if bad_ids:
        with open(cases) as f:
            case_lines = f.readlines()
        seed_by_name = {sd["name"]: sd for sd in vlib.read_ndjson(seeds)}
        seen = {}
        for cid in bad_ids:
            case = json.loads(case_lines[cid - 1])
            for d in by_id[cid]:
                fp = _fingerprint(d, seed_by_name.get(case["seed"]), case)
                seen.setdefault(fp, []).append((cid, d))
        for fp, inst in sorted(seen.items()):
            cid, d = inst[0]
            case = json.loads(case_lines[cid - 1])
            case.pop("bytes", None)
            ctx.violation(fp, "%s on seed %s mutated by %s: %s %s (%d cases)" % (
                d["ep"], case["seed"], json.dumps(case["muts"]), d["outcome"], d["msg"][:200], len(inst)),
                {"case_id": cid, "case": case, "entry_point": d["ep"], "outcome": d["outcome"], "msg": d["msg"], "loc": d.get("loc"),
                 "instances": len(inst), "other_case_ids": [c for c, _ in inst[1:20]],
                 "reproduce": "VERIF_KEEP=1 bin/check C05 %s; harness/target/release/drv_malform one --seeds work/C05/seeds.ndjson --cases work/C05/cases.ndjson --id %d" % (ctx.tier, cid)})
        ctx.extra_cov["violating_cases"] = len(bad_ids)
    # 5. coverage
    ctx.cov["evaluations"] = summ["executions"]
    ctx.cov["distinct_nontrivial"] = summ["mixed_outcome_cases"]
    ctx.extra_cov.update({
        "seeds": nseeds, "cases": n, "outcomes": summ["outcomes"], "entry_point_executions": summ["executions"],
        "transport_checked_against_tlc_bytes": summ["transport_checked"], "worker_incidents": summ["worker_incidents"],
        "worker_cpu_s": round(summ["worker_cpu_s"], 1), "input_bytes": summ["input_bytes"], "shards": SHARDS,
    })
    if summ["transport_checked"] == 0:
        raise vlib.ToolError("no case carried TLC-materialised bytes: the driver's splice was not cross-checked")
    per_op = {}
    with open(cases) as f:
        for i, ln in enumerate(f):
            m = re.findall(r'"m":"(\w+)"', ln)
            key = "+".join(m)
            per_op[key] = per_op.get(key, 0) + 1
            if i in (0, n // 3, 2 * n // 3):
                c = json.loads(ln)
                c.pop("bytes", None)
                ctx.sample(c)
    ctx.extra_cov["cases_per_operator"] = dict(sorted(per_op.items(), key=lambda x: -x[1])[:40])
    ctx.exhaustive = False
