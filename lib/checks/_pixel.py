"""Helpers shared by the pixel-area checks (C18-C22)."""
import json
import os

import vlib

SPEC = os.path.join(vlib.SPECS, "pixel")


def mc(ctx, module, cfg, actions=None, workers=4, timeout=1500, heap="4g"):
    r = vlib.tlc(SPEC, module, cfg, workers=workers, timeout=timeout, heap=heap)
    ctx.check_model(r, "%s/%s" % (module, cfg))
    if actions:
        ctx.require_coverage(r, actions)
    vlib.log("[%s] model %s/%s: %d distinct states, %.1fs" % (ctx.pid, module, cfg, r.distinct, r.wall_s))
    return r


def generate(ctx, module, cfg, out, append=False, timeout=1500, heap="6g", env=None):
    r, n = vlib.tlc_generate(SPEC, module, cfg, out, timeout=timeout, append=append, heap=heap, env=env)
    ctx.add_tlc(r)
    vlib.log("[%s] generator %s/%s: %d cases, %.1fs" % (ctx.pid, module, cfg, n, r.wall_s))
    return n


def validate(ctx, module, trace, cfg=None, reset_events=("case",), timeout=1500, heap="6g", max_rejections=8):
    """Validate a trace whose events are independent cases (every event is its own
    'reset'), returns the list of rejections. A MALFORMED marker printed by the
    validator (premise of the property not met by a generated input) is a tool error."""
    out = vlib.validate_trace_cases(SPEC, module, trace, cfg=cfg or (module + ".cfg"), reset_events=reset_events,
                                    timeout=timeout, heap=heap, max_rejections=max_rejections)
    for r in out["results"]:
        ctx.add_tlc(r)
        if '"MALFORMED"' in r.out:
            raise vlib.ToolError("%s: an input outside the property's premise was generated (MALFORMED marker)" % module)
    return out["rejections"]


def validate_independent(ctx, module, trace, cfg=None, timeout=1500, heap="6g"):
    """Validate a trace of independent cases with a validator that consumes every event
    and prints <<"FAILED", line, json-list-of-failed-check-names>> for each event that
    violates the property.  Returns [(line, [names], event)]."""
    import re
    res = vlib.validate_trace(SPEC, module, trace, cfg=cfg or (module + ".cfg"), timeout=timeout, heap=heap)
    ctx.add_tlc(res["result"])
    if not res["accepted"]:
        raise vlib.ToolError("%s: an event could not be consumed at line %s: %s" % (module, res["line"], json.dumps(res["record"])[:500]))
    evs = None
    out, seen = [], set()
    for m in re.finditer(r'^<<"FAILED", (\d+), "(.*)">>$', res["result"].out, re.M):
        ln = int(m.group(1))
        if ln in seen:
            continue
        seen.add(ln)
        if evs is None:
            evs = vlib.read_ndjson(trace)
        out.append((ln, json.loads(vlib.tla_unescape(m.group(2))), evs[ln - 1]))
    return out


def selftest_trace(ctx, module, trace, mutate, cfg=None, what=""):
    """Binding self-test: corrupt one recorded field of the first event that `mutate`
    accepts; the validator must reject the corrupted trace."""
    evs = vlib.read_ndjson(trace)
    done = False
    for e in evs:
        if mutate(e):
            done = True
            break
    if not done:
        raise vlib.ToolError("self-test %s: nothing to corrupt" % what)
    p = trace + ".selftest"
    vlib.write_ndjson(p, evs[:evs.index(e) + 1][-3:] if False else [e])
    res = vlib.validate_trace(SPEC, module, p, cfg=cfg or (module + ".cfg"), timeout=600)
    if res["accepted"]:
        raise vlib.ToolError("binding self-test failed: %s accepted a corrupted event (%s)" % (module, what))
    ctx.extra_cov.setdefault("binding_selftests", []).append("%s rejects corrupted %s" % (module, what))


def selftest_replay(ctx, driver, args_for, cases_path, mutate, what=""):
    """Binding self-test for a replay driver: corrupt the expected value of one TLC
    case; the driver must report a mismatch."""
    with open(cases_path) as f:
        for line in f:
            c = json.loads(line)
            if mutate(c):
                break
        else:
            raise vlib.ToolError("self-test %s: nothing to corrupt" % what)
    p = cases_path + ".selftest"
    vlib.write_ndjson(p, [c])
    rep = vlib.run_driver(driver, args_for(p), env=ctx.env())
    if rep["mismatch_count"] == 0:
        raise vlib.ToolError("binding self-test failed: %s accepted a corrupted expectation (%s)" % (driver, what))
    ctx.extra_cov.setdefault("binding_selftests", []).append("%s flags corrupted %s" % (driver, what))


def sample_lines(ctx, path, n):
    with open(path) as f:
        for i, ln in enumerate(f):
            if i in (0, n // 2, n - 1):
                try:
                    ctx.sample(json.loads(ln))
                except Exception:
                    pass
