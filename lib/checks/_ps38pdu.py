"""Helpers shared by the checks of the ps38pdu area (C25, C27, C36)."""
import json
import os

import vlib

SPEC = os.path.join(vlib.SPECS, "ps38pdu")


def judge(ctx, module, path, strict_cfg, prop_cfg, reset_events, fingerprint, label, max_rejections=6,
          timeout=1800, heap="8g"):
    """Two-level trace validation.

    First the implementation-shaped level (`strict_cfg`: canonical bytes / buffer
    accounting / canonical text are demanded too).  If it accepts, the property-level
    obligations hold a fortiori.  Otherwise the trace is judged again at the level of
    the property (`prop_cfg`); only rejections there are violations, the rest is drift.
    Returns the number of events in the file."""
    n_events = vlib.count_lines(path)
    if n_events == 0:
        raise vlib.ToolError("vacuity: empty trace %s" % path)
    out = vlib.validate_trace_cases(SPEC, module, path, cfg=strict_cfg, reset_events=reset_events,
                                    max_rejections=max_rejections, timeout=timeout, heap=heap)
    for r in out["results"]:
        ctx.add_tlc(r)
    if not out["rejections"]:
        return n_events
    out2 = vlib.validate_trace_cases(SPEC, module, path, cfg=prop_cfg, reset_events=reset_events,
                                     max_rejections=max_rejections, timeout=timeout, heap=heap)
    for r in out2["results"]:
        ctx.add_tlc(r)
    for rj in out2["rejections"]:
        fp = fingerprint(rj["record"], rj["case_events"])
        ctx.violation(fp, "%s: trace %s rejected at line %d: %s" % (
            label, os.path.basename(path), rj["line"], json.dumps(rj["record"])[:900]),
            {"rejected_event": _clip(rj["record"]), "case_events": [_clip(e) for e in rj["case_events"][-40:]]})
    if out2["truncated"]:
        ctx.note("%s: more than %d rejected cases in %s; the remainder of the file was not judged" % (
            label, max_rejections, os.path.basename(path)))
    prop_lines = {json.dumps(rj["record"], sort_keys=True) for rj in out2["rejections"]}
    drift = [rj for rj in out["rejections"] if json.dumps(rj["record"], sort_keys=True) not in prop_lines]
    if drift:
        ctx.note("drift (%s): %d case(s) differ from the implementation-shaped model but satisfy the property-level "
                 "spec; first: %s" % (label, len(drift), json.dumps(_clip(drift[0]["record"]))[:600]))
        ctx.extra_cov["model_drift_cases"] = ctx.extra_cov.get("model_drift_cases", 0) + len(drift)
    return n_events


def _clip(o, limit=400):
    """shorten long arrays inside a replay object"""
    if isinstance(o, dict):
        return {k: _clip(v, limit) for k, v in o.items()}
    if isinstance(o, list):
        if len(o) > limit:
            return [_clip(x, limit) for x in o[:limit]] + ["... %d more" % (len(o) - limit)]
        return [_clip(x, limit) for x in o]
    return o


def must_reject(ctx, module, path, cfg, what, expect_line=None):
    """binding self-test: a corrupted trace must be rejected (at the corrupted line)"""
    res = vlib.validate_trace(SPEC, module, path, cfg=cfg, timeout=900, heap="6g")
    ctx.add_tlc(res["result"])
    if res["accepted"] or (expect_line is not None and res["line"] != expect_line):
        raise vlib.ToolError("binding self-test failed: %s was not rejected as expected (accepted=%s line=%s, expected line %s)"
                             % (what, res["accepted"], res["line"], expect_line))
    vlib.log("[selftest] %s: rejected at line %s as expected" % (what, res["line"]))
