"""C08  Flexible VR decoding agrees with the correct decoder.

1. TLC model-checks the token reader with the adaptive decoder (AdaptiveVR.tla: lock in
   {Unknown, Explicit, Implicit}, probe on the first element that is not an item/delimiter
   header) against the regular decoder of the real encoding on the universe of
   AdaptiveCases.tla: first-element classes (known attribute x kind of dictionary entry,
   group length, private creator, private element, unknown attribute, stray item delimiter
   first, sequence first, pixel data first) x length classes (plain / spelling a compatible /
   an incompatible VR / undefined) x {EVRLE, IVRLE}.  On every case satisfying the premise
   ~Ambiguous the adaptive token stream is the regular one, the lock is the real encoding and
   never changes after the probe.
2. TLC prints each case with the stream bytes (from Layout!Wire, long values run-length
   coded) and the expected tokens; the driver reads them with DataSetReaderOptions::
   flexible_decoding(true) (declared EVRLE and declared IVRLE) and with the regular decoder
   and compares both with the expected tokens.  Ambiguous cases are replayed for information
   only (how often the probe is indeed wrong there).
3. Token logs of the short cases (regular reader, and flexible reader validated against the
   adaptive lock of the model) are validated by TLC (Trace_Reader).
"""
import json
import os

import vlib
from checks import _readers as R


def run(ctx):
    ctx.level = "model_checking"
    ctx.rule = ("TLC exhaustive over first-element classes x length-field classes x {EVRLE,IVRLE} (+ stray delimiter, sequence, "
                "pixel data first), each followed by a tail with short/long VR headers, nested sequences with explicit and "
                "undefined lengths; plus unambiguous first elements followed by later elements (root and in items) whose length "
                "fields spell VRs compatible / incompatible with their own entry (the lock must not be re-probed); every case replayed with flexible decoding (declared EVRLE and IVRLE) and the regular "
                "decoder. distinct_nontrivial = cases that satisfy the premise (unambiguous first element).")
    ctx.assumptions += [
        "premise of C08 as the predicate AdaptiveVR!Ambiguous: for implicit data the two low length bytes of the first element do not "
        "spell a VR compatible with its dictionary entry (any VR for an attribute without entry); for explicit data the VR written "
        "is one the dictionary allows for the attribute (e.g. a known attribute written as UN is outside the premise)",
        "dictionary facts (entry class and implicit VR of every tag used) are checked against StandardDataDictionary at the start of the run",
        "lengths spelling a VR code are >= 16708 bytes; such values are uniform byte runs",
    ]
    vlib.build_harness([R.DRV])

    r = vlib.tlc(R.SPEC, "MC_Adaptive", "MC_Adaptive.cfg", workers=4, timeout=3000, heap="8g", coverage=False)
    ctx.check_model(r, "adaptive reader = regular reader on unambiguous cases; lock stable")
    # vacuity: every reader action is taken (coverage statistics on the cases without long values)
    rc = vlib.tlc(R.SPEC, "MC_Adaptive", "MC_Adaptive_cov.cfg", workers=2, timeout=3000, heap="4g")
    ctx.check_model(rc, "adaptive reader, coverage run")
    ctx.require_coverage(rc, ["MDelimEnd", "MItemHeaderStep", "MPixelItemValue", "MEnterPixel", "MReadValue", "MElemHeaderStep"])

    cases = ctx.path("cases.ndjson")
    gr, n = vlib.tlc_generate(R.SPEC, "Gen_Adaptive", "Gen_Adaptive.cfg", cases, timeout=3000, heap="8g")
    ctx.add_tlc(gr)
    nfacts = R.check_dict_facts(ctx, cases)
    args = ["c08", "--cases", cases, "--out", ctx.path("out")]
    if os.environ.get("VERIF_SELFTEST"):
        args += ["--selftest", os.environ["VERIF_SELFTEST"]]
    rep = vlib.run_driver(R.DRV, args, env=ctx.env(), timeout=3000)
    by = rep["unambiguous_by_class"]
    for need in ("IVRLE spells an incompatible VR", "IVRLE plain", "EVRLE plain", "EVRLE spells a compatible VR",
                 "IVRLE later elements spell VRs", "EVRLE later elements spell VRs"):
        if not by.get(need):
            raise vlib.ToolError("vacuity: no unambiguous case of class '%s'" % need)
    if not rep["ambiguous_cases"]:
        raise vlib.ToolError("vacuity: the generator produced no ambiguous case (premise never false)")
    vlib.log("[C08] %d cases: %d satisfy the premise, %d ambiguous (flexible decoding misreads %d of %d ambiguous runs)"
             % (rep["cases"], rep["unambiguous_cases"], rep["ambiguous_cases"], rep["ambiguous_runs_misread"],
                2 * rep["ambiguous_cases"]))
    ctx.cov["evaluations"] += rep["reader_runs"]
    ctx.cov["distinct_nontrivial"] += rep["nontrivial"]
    ctx.extra_cov.update({"unambiguous_cases": rep["unambiguous_cases"], "ambiguous_cases": rep["ambiguous_cases"],
                          "ambiguous_runs_misread": rep["ambiguous_runs_misread"], "unambiguous_by_class": by,
                          "dictionary_facts_checked": nfacts})
    ctx.note("outside the premise (informational): flexible decoding misreads %d of %d runs on ambiguous first elements, e.g. a known "
             "attribute written with VR UN in explicit VR, or an implicit length whose low bytes spell a compatible VR"
             % (rep["ambiguous_runs_misread"], 2 * rep["ambiguous_cases"]))
    R.report_classes(ctx, rep, "replay of TLC cases with flexible_decoding(true) and the regular decoder")
    # token logs of the short unambiguous cases -> Trace_Reader (regular reader under its syntax,
    # flexible reader under the adaptive lock of AdaptiveVR.tla)
    out = vlib.validate_trace_cases(R.SPEC, "Trace_Reader", rep["trace_path"], cfg="Trace_Reader.cfg",
                                    reset_events=("reset",), timeout=3000, heap="6g")
    for tr in out["results"]:
        ctx.add_tlc(tr)
    ctx.cov["traces_validated_against_impl"] += rep["traced_cases"]
    ctx.extra_cov["trace_events_validated"] = rep["trace_events"]
    if out["rejections"] and not rep["mismatches"]:
        rj = out["rejections"][0]
        raise vlib.ToolError("Trace_Reader rejects a token log that equals the expected tokens (line %d: %s)"
                             % (rj["line"], json.dumps(rj["record"])))
    if rep["mismatches"] and not out["rejections"] and any("flexible" in m["class"] for m in rep["mismatches"]):
        vlib.log("[C08] note: Trace_Reader accepted all traced logs although the replay found differences (differences outside the traced subset)")
    k = 0
    with open(cases) as f:
        for ln in f:
            c = json.loads(ln)
            if "enc" in c and k < 3 and c["lenclass"] != "plain":
                ctx.sample({kk: c[kk] for kk in ("enc", "stray", "first", "amb", "entry", "lenclass", "total")})
                k += 1
    ctx.exhaustive = True
