"""C16  Every registered transfer syntax is described consistently.

1. TLC model-checks the registry state machine of TsRegistry.tla (Register arms,
   lookup with padding) over a small UID universe: support never shrinks, the codec
   kind of a UID is stable, lookup ignores trailing NULs/spaces, the capability
   operators are mutually coherent.
2. drv_tsreg dumps a snapshot of the real registry (entry definitions in registration
   order, every registered transfer syntax with its capability answers and with what
   its offered encoder/decoder/adapter actually do, lookups with padding) for each
   Cargo feature set {harness = deflate+rle+jpeg, default, rle, jpeg, deflate}.
3. Judge_TsRegistry (TLC) replays the registrations on the model and judges every
   event of every snapshot with the operators of TsRegistry.tla.  A failed rule is a
   violation of C16; "drift" rules are notes.
"""
import json
import os
import shutil

import vlib
from checks import _dict

VARIANTS = os.path.join(vlib.HARNESS, "tsreg_variants")
# own target directory: no lock contention with the other drivers' builds
TARGET = os.path.join(vlib.HARNESS, "target", "tsreg_variants")


def build_variant(ctx, label, features):
    lock = os.path.join(VARIANTS, "Cargo.lock")
    if not os.path.exists(lock):
        shutil.copy(os.path.join(vlib.HARNESS, "Cargo.lock"), lock)
    cmd = ["cargo", "build", "--release", "--offline", "--target-dir", TARGET]
    if features:
        cmd += ["--features", features]
    rc, out = vlib.sh(cmd, cwd=VARIANTS, env={"CARGO_NET_OFFLINE": "true"}, timeout=3600)
    if rc != 0:
        raise vlib.ToolError("tsreg_variants build (%s) failed:\n%s" % (label, out[-3000:]))
    dst = ctx.path("drv_tsreg_" + label)
    shutil.copy(os.path.join(TARGET, "release", "drv_tsreg_v"), dst)
    return dst


def run_snapshot(binary, out, label):
    rc, text = vlib.sh([binary, "snapshot", "--out", out, "--features", label], cwd=vlib.VERIF, timeout=600)
    rep = None
    for line in text.splitlines():
        if line.startswith("REPORT "):
            rep = json.loads(line[7:])
    if rep is None:
        raise vlib.ToolError("drv_tsreg (%s) produced no REPORT (rc=%d): %s" % (label, rc, text[-2000:]))
    return rep


def run(ctx):
    ctx.level = "model_checking"
    ctx.rule = ("TLC exhaustive over the registry state machine (2 UIDs x 7 codec shapes); every event of the registry "
                "snapshot of each feature set judged by TLC (Judge_TsRegistry over TsRegistry.tla). distinct_nontrivial = "
                "distinct (feature set, transfer syntax) descriptions judged.")
    ctx.assumptions += [
        "implicit/explicit VR is observed through the bytes the offered encoder writes for the header of (0010,0010) PN "
        "and through the offered decoder reading them back (TransferSyntax has no accessor for explicit_vr)",
        "the list of built-in entry definitions is hand-copied from transfer-syntax-registry/src/lib.rs (46 constants); "
        "an entry added later is still judged through iter(), only the 'registered as defined' drift rule would report it",
        "feature sets covered: deflate+rle+jpeg (harness) and default in the quick tier, plus rle, jpeg, deflate alone in the thorough tier; charls/openjpeg/jpegxl need C "
        "libraries or crates that are not available offline",
    ]
    r = vlib.tlc(_dict.SPEC, "MC_TsRegistry", "MC_TsRegistry.cfg", workers=2, timeout=600)
    ctx.check_model(r, "MC_TsRegistry")
    ctx.require_coverage(r, ["RegisterNew", "RegisterReplace", "RegisterIgnored"])

    vlib.build_harness(["drv_tsreg"])
    # harness (all three codec features) and default (none of them) exercise both sides of every cfg in entries.rs;
    # the single-feature sets are added in the thorough tier
    sets = [("harness", None), ("default", "")]
    if not ctx.quick:
        sets += [("rle", "rle"), ("jpeg", "jpeg"), ("deflate", "deflate")]
    seen_desc = set()
    events = []
    for label, feats in sets:
        binary = vlib.driver_path("drv_tsreg") if feats is None else build_variant(ctx, label, feats)
        snap = ctx.path("snapshot_%s.ndjson" % label)
        rep = run_snapshot(binary, snap, label)
        if rep["registered"] < 40 or rep["lookups"] < 8 * rep["registered"]:
            raise vlib.ToolError("vacuity: snapshot %s too small: %s" % (label, rep))
        events += vlib.read_ndjson(snap)
    if os.environ.get("VERIF_SELFTEST_C16"):
        # binding self-test: corrupt one recorded capability answer
        for e in events:
            if e.get("ev") == "ts" and e["kind"] == "encaps" and not e["r"]:
                e["q"]["can_all"] = True
                break
    allsnap = ctx.path("snapshots.ndjson")
    vlib.write_ndjson(allsnap, events)
    verdicts, jr = _dict.judge(ctx, "Judge_TsRegistry", "Judge_TsRegistry.cfg", allsnap, expect=len(events))
    if len(verdicts) != len(events):
        raise vlib.ToolError("judge returned %d verdicts for %d events" % (len(verdicts), len(events)))
    total_events = len(events)
    ctx.cov["evaluations"] += len(events)
    ctx.cov["traces_validated_against_impl"] += len(sets)
    kinds = {}
    for e in events:
        if e.get("ev") == "ts":
            seen_desc.add((e["fs"], e["uid"], e["kind"], e["r"], e["w"], e["a"]))
            k = e["kind"] + ("+r" if e["r"] else "") + ("+w" if e["w"] else "") + ("+a" if e["a"] else "")
            d = kinds.setdefault(e["fs"], {})
            d[k] = d.get(k, 0) + 1
            if e["fs"] == "harness" and e["uid"] in ("1.2.840.10008.1.2", "1.2.840.10008.1.2.5"):
                ctx.sample(e)
    ctx.extra_cov["codec_shapes_per_feature_set"] = kinds
    for v in verdicts:
        hard, drift = _dict.split_rules(v["failed"])
        ev = events[v["line"] - 1]
        for rule in hard:
            ctx.violation("%s [%s]" % (rule, v.get("uid", "")),
                          "feature set %s: %s event for %s: %s" % (v["fs"], v["ev"], v.get("uid"), rule),
                          {"features": v["fs"], "event": ev, "failed": v["failed"]})
        for rule in drift:
            ctx.note("feature set %s, %s %s: %s" % (v["fs"], v["ev"], v.get("uid"), rule))
    ctx.cov["distinct_nontrivial"] = len(seen_desc)
    ctx.extra_cov["events_judged"] = total_events
    ctx.exhaustive = True
