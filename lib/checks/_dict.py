"""Shared helpers of the dict area (C10, C15, C16).

`judge`: run a Judge_* TLA+ module over a recorded ndjson file.  The module reads
the events with ndJsonDeserialize(IOEnv.TRACE), steps through them and prints
one verdict `<<"CASE", ToJson([line |-> i, failed |-> {rule names}, ...])>>` per
event (or per failing event plus a final summary) computed by the spec's
operators.  Python only transports the verdicts.
"""
import json
import os

import vlib

SPEC = os.path.join(vlib.SPECS, "dict")


def judge(ctx, module, cfg, trace_path, env=None, timeout=1500, heap="6g", expect=None):
    out = trace_path + ".verdicts"
    e = {"TRACE": os.path.abspath(trace_path)}
    if env:
        e.update(env)
    r, n = vlib.tlc_generate(SPEC, module, cfg, out, timeout=timeout, env=e, heap=heap)
    if r.error:
        raise vlib.ToolError("judge %s failed: %s" % (module, r.error_text[:2000]))
    ctx.add_tlc(r)
    verdicts = vlib.read_ndjson(out)
    if expect is not None and r.distinct != expect + 1:
        raise vlib.ToolError("judge %s stepped through %d events, expected %d" % (module, r.distinct - 1, expect))
    return verdicts, r


def split_rules(failed):
    """rules named 'drift ...' are informational (model deviation, not property)"""
    hard = [f for f in failed if not f.startswith("drift ")]
    drift = [f for f in failed if f.startswith("drift ")]
    return hard, drift


# --------------------------------------------------------------------------- C15 tables
# Pure transport: the generated source files of dicom-dictionary-std are turned into
# ndjson rows (no lookup logic here; consistency of the three textual sources of a
# row -- published dicom.dic line in the doc comment, constant declaration, ENTRIES
# line -- is judged by TLC).
import re

_doc_re = re.compile(r"^/// (\S+) \(([0-9A-Fa-f]{4})(?:-([0-9A-Fa-f]{4}))?,([0-9A-Fa-f]{4})(?:-([0-9A-Fa-f]{4}))?\) (\S+) (\S+) ?(.*)$")
_decl_re = re.compile(r"^pub const ([A-Z0-9_]+): (Tag|TagRange) = (?:(Group100|Element100)\()?Tag\(0x([0-9A-Fa-f]{4}), 0x([0-9A-Fa-f]{4})\)\)?;")
_entry_re = re.compile(r'^\s*E \{ tag: (?:(Single)\()?([A-Z0-9_]+)\)?, alias: "([^"]*)", vr: (?:Exact\(([A-Z]{2})\)|(Xs|Ox|Px|Lt)) \}')


def extract_tag_table(tags_rs="/repo/dictionary-std/src/tags.rs"):
    decls, rows = {}, []
    doc = None
    in_entries = False
    with open(tags_rs) as f:
        for line in f:
            line = line.rstrip("\n")
            if line.startswith("pub(crate) const ENTRIES"):
                in_entries = True
                continue
            if not in_entries:
                m = _doc_re.match(line)
                if m:
                    doc = m
                    continue
                if line.startswith("/// "):
                    raise vlib.ToolError("tags.rs: unparsed doc line: " + line)
                m = _decl_re.match(line)
                if m:
                    if doc is None:
                        raise vlib.ToolError("tags.rs: constant without doc line: " + line)
                    glo = int(doc.group(2), 16)
                    elo = int(doc.group(4), 16)
                    decls[m.group(1)] = {
                        "cname": m.group(1), "ctype": m.group(2), "ctor": m.group(3) or "",
                        "g": int(m.group(4), 16), "e": int(m.group(5), 16),
                        "dalias": doc.group(1), "glo": glo, "ghi": int(doc.group(3), 16) if doc.group(3) else glo,
                        "elo": elo, "ehi": int(doc.group(5), 16) if doc.group(5) else elo,
                        "dvr": doc.group(6), "dvm": doc.group(7)}
                    doc = None
                elif line.startswith("pub const"):
                    raise vlib.ToolError("tags.rs: unparsed constant: " + line)
            else:
                if line.strip().startswith("E {"):
                    m = _entry_re.match(line)
                    if not m:
                        raise vlib.ToolError("tags.rs: unparsed entry: " + line)
                    d = decls.get(m.group(2))
                    if d is None:
                        raise vlib.ToolError("tags.rs: entry refers to unknown constant " + m.group(2))
                    row = dict(d)
                    row.update({"wrap": m.group(1) or "", "alias": m.group(3),
                                "vr": m.group(4) if m.group(4) else m.group(5).lower()})
                    rows.append(row)
    # singles first in ascending tag order (TLC checks the order and uses binary search)
    singles = sorted([r for r in rows if r["wrap"] == "Single"], key=lambda r: (r["g"], r["e"]))
    ranges = [r for r in rows if r["wrap"] != "Single"]
    out = singles + ranges
    for k, r in enumerate(out):
        r["id"] = k + 1
    return out, len(decls)


_uid_entry_re = re.compile(r'^\s*E::new\("([^"]*)", "((?:[^"\\]|\\.)*)", "([^"]*)", (\w+), (true|false)\),')
_uid_decl_re = re.compile(r'^pub const ([A-Z0-9_]+): &str = "([^"]*)";')


def extract_sop_table(uids_rs="/repo/dictionary-std/src/uids.rs"):
    rows, consts = [], {}
    block = None
    doc = None
    with open(uids_rs) as f:
        for line in f:
            line = line.rstrip("\n")
            if line.startswith("/// "):
                doc = line[4:]
                continue
            m = _uid_decl_re.match(line)
            if m:
                consts[m.group(2)] = {"cname": m.group(1), "doc": doc or ""}
                continue
            m = re.match(r"^pub\(crate\) const ([A-Z_]+): &\[E\] = &\[", line)
            if m:
                block = m.group(1)
                continue
            if line.startswith("];"):
                block = None
                continue
            if block and line.strip().startswith("E::new"):
                m = _uid_entry_re.match(line)
                if not m:
                    raise vlib.ToolError("uids.rs: unparsed entry: " + line)
                c = consts.get(m.group(1), {"cname": "", "doc": ""})
                rows.append({"block": block, "uid": m.group(1), "name": m.group(2).replace('\\"', '"'), "alias": m.group(3),
                             "type": m.group(4), "retired": m.group(5) == "true", "cname": c["cname"], "doc": c["doc"]})
    return rows


# --------------------------------------------------------------------------- C10 code tables
# DATA generated at check time by python3's own codecs (independent of dicom-rs):
# for every single-byte character set the pairs (code point, byte) that round-trip in
# python, restricted to graphic bytes 0x20-0x7E and 0xA0-0xFF (control codes are not
# part of any repertoire).  ISO_IR 13 (JIS X 0201): the single-byte part of shift_jis
# without 0x5C and 0x7E, where JIS X 0201 (YEN SIGN, OVERLINE) and the vendor code pages
# (REVERSE SOLIDUS, TILDE) legitimately differ.
PY_CODECS = {
    "ISO_IR 6": "ascii",
    "ISO_IR 13": "shift_jis",
    "ISO_IR 100": "latin_1",
    "ISO_IR 101": "iso8859_2",
    "ISO_IR 109": "iso8859_3",
    "ISO_IR 110": "iso8859_4",
    "ISO_IR 126": "iso8859_7",
    "ISO_IR 127": "iso8859_6",
    "ISO_IR 138": "iso8859_8",
    "ISO_IR 144": "iso8859_5",
    "ISO_IR 166": "tis_620",
}


def charset_tables():
    rows = []
    for cs, codec in PY_CODECS.items():
        cps, bts = [], []
        for b in list(range(0x20, 0x7F)) + list(range(0xA0, 0x100)):
            if cs == "ISO_IR 13" and b in (0x5C, 0x7E):
                continue
            try:
                s = bytes([b]).decode(codec)
            except (UnicodeDecodeError, ValueError):
                continue
            if len(s) != 1:
                continue
            try:
                if s.encode(codec) != bytes([b]):
                    continue
            except (UnicodeEncodeError, ValueError):
                continue
            cps.append(ord(s))
            bts.append(b)
        rows.append({"cs": cs, "codec": codec, "cps": cps, "bytes": bts})
    return rows
