"""Shared helpers of the dict area (C10, C15, C16).

`judge`: run a Judge_* TLA+ module over a recorded ndjson file.  The module reads
the events with ndJsonDeserialize(IOEnv.TRACE), steps through them and prints
one verdict `<<"CASE", ToJson([line |-> i, failed |-> {rule names}, ...])>>` per
event (or per failing event plus a final summary) computed by the spec's
operators.  Python only transports the verdicts.
"""
import json
import os

import vlib

SPEC = os.path.join(vlib.SPECS, "dict")


def judge(ctx, module, cfg, trace_path, env=None, timeout=1500, heap="6g", expect=None):
    out = trace_path + ".verdicts"
    e = {"TRACE": os.path.abspath(trace_path)}
    if env:
        e.update(env)
    r, n = vlib.tlc_generate(SPEC, module, cfg, out, timeout=timeout, env=e, heap=heap)
    if r.error:
        raise vlib.ToolError("judge %s failed: %s" % (module, r.error_text[:2000]))
    ctx.add_tlc(r)
    verdicts = vlib.read_ndjson(out)
    if expect is not None and r.distinct != expect + 1:
        raise vlib.ToolError("judge %s stepped through %d events, expected %d" % (module, r.distinct - 1, expect))
    return verdicts, r


def split_rules(failed):
    """rules named 'drift ...' are informational (model deviation, not property)"""
    hard = [f for f in failed if not f.startswith("drift ")]
    drift = [f for f in failed if f.startswith("drift ")]
    return hard, drift
