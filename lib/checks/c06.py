"""C06  Lazy reader and collector agree with the eager reader.

1. TLC model-checks Collector.tla (collector states Start/Preamble/FileMeta/InDataset/
   InPixelData, read_dataset_up_to portions, read_to_end, read_basic_offset_table,
   read_next_fragment) over the file universe of CollectorFiles.tla: for every portioning the
   collected elements + what was skipped + offset table + fragments are the whole file
   (ObjectBuild!Obj); and DataSetReader.tla on the same data sets: eager and lazy token
   streams are the prescribed ones and correspond (offset table <-> first lazy item value).
2. TLC prints every file (bytes, whole object, meta table, eager/lazy tokens, read_until /
   read_to results) and every complete collector behaviour with the expected result of
   each call (Gen_Collector); in addition seeded random larger conforming files with random
   split points / stop tags, whose call plans TLC executes through Collector.tla
   (Gen_CollectorPlan).  The driver runs from_reader/open_file, the eager and the
   lazy reader, OpenFileOptions::read_until/read_to and DicomCollector call by call and
   compares with the expectations.
3. The token logs of both readers are validated by TLC against DataSetReader.tla.
"""
import json
import os

import vlib
from checks import _readers as R


def run(ctx):
    q = ctx.quick
    ctx.level = "model_checking"
    ctx.rule = ("TLC exhaustive over files (8 head shapes incl. mixed-length nesting and icon-image sequences with nested pixel data [replay in the quick tier: 3; quick model check without preamble and with 4 stop tags] incl. nested sequences with explicit/undefined lengths and an empty "
                "value; pixel data absent/native/encapsulated with empty or non-empty offset table and zero-length fragments; "
                "optional element after the pixel data) x {IVRLE,EVRLE,EVRBE} x portionings (<=2 read_dataset_up_to stops "
                "out of 4 tags [thorough: <=3 of 7, with/without preamble], then read_to_end | offset table + fragments | "
                "fragments only, with or without explicit read_preamble/read_file_meta); every behaviour replayed call by call "
                "on DicomCollector; every file through from_reader, open_file, eager and lazy readers and every read_until/"
                "read_to tag. distinct_nontrivial = collector behaviours with at least one data set call + files.")
    ctx.assumptions += [
        "files are what a conforming writer produces (even lengths, ascending unique tags); bytes come from Layout!Wire and ObjectBuild!MetaBytes",
        "calls the API documents as illegal in a state (e.g. read_basic_offset_table after fragments) are not generated",
        "the recorded explicit length of sequence items is not part of object equality (InMemDicomObject::eq ignores it); the collector does not record it: reported as drift",
        "dictionary facts of Layout.tla are checked against StandardDataDictionary at the start of the run",
    ]
    vlib.build_harness([R.DRV])
    suf = "" if q else "_thorough"

    # 1. model checking
    r = vlib.tlc(R.SPEC, "MC_Collector", "MC_Collector%s.cfg" % suf, workers=4, timeout=3000, heap="6g", coverage=False)
    ctx.check_model(r, "Collector: parts make up the whole for every portioning")
    r = vlib.tlc(R.SPEC, "MC_ReaderFiles", "MC_ReaderFiles.cfg", workers=4, timeout=3000, heap="6g", coverage=False)
    ctx.check_model(r, "DataSetReader on the file universe, eager ~ lazy")
    # vacuity: every action is taken (coverage statistics on small sub-universes; TLC's coverage collection
    # is expensive on the full ones)
    rc = vlib.tlc(R.SPEC, "MC_Collector", "MC_Collector_cov.cfg", workers=2, timeout=3000, heap="4g")
    ctx.check_model(rc, "Collector, coverage run")
    ctx.require_coverage(rc, ["ReadPreamble", "ReadFileMeta", "ReadUpTo", "ReadToEnd", "ReadBOT", "ReadNextFragment"])
    rc = vlib.tlc(R.SPEC, "MC_ReaderFiles", "MC_ReaderFiles_cov.cfg", workers=2, timeout=3000, heap="4g")
    ctx.check_model(rc, "DataSetReader on files, coverage run")
    ctx.require_coverage(rc, ["MDelimEnd", "MItemHeaderStep", "MPixelItemValue", "MEnterPixel", "MReadValue", "MElemHeaderStep"])

    # 2. files and behaviours -> real code
    cases = ctx.path("cases.ndjson")
    gr, n = vlib.tlc_generate(R.SPEC, "Gen_Collector", "Gen_Collector%s.cfg" % suf, cases, timeout=3000, heap="8g")
    ctx.add_tlc(gr)
    # seeded random larger conforming files, each with a random legal portioning; the plan is executed by
    # TLC through the actions of Collector.tla (Gen_CollectorPlan), which supplies every expected result
    structs = ctx.path("rfiles.ndjson")
    R.random_files(ctx.seed, 120 if q else 2500, structs)
    gr2, n2 = vlib.tlc_generate(R.SPEC, "Gen_CollectorPlan", "Gen_CollectorPlan.cfg", cases, timeout=3000, heap="8g",
                                env={"STRUCTS": structs}, append=True)
    ctx.add_tlc(gr2)
    ctx.extra_cov["random_file_and_plan_records"] = n2
    nfacts = R.check_dict_facts(ctx, cases)
    args = ["c06", "--cases", cases, "--out", ctx.path("out"), "--trace-every", 3 if q else 1]
    if os.environ.get("VERIF_SELFTEST"):
        args += ["--selftest", os.environ["VERIF_SELFTEST"]]
    rep = vlib.run_driver(R.DRV, args, env=ctx.env(), timeout=3000)
    vlib.log("[C06] %d files, %d collector behaviours (%d calls, %d fragment calls) generated by TLC and replayed"
             % (rep["files"], rep["behaviours"], rep["collector_calls"], rep["fragment_calls"]))
    ctx.cov["evaluations"] += rep["whole_reads"] + rep["token_runs"] + rep["stop_rule_reads"] + rep["behaviours"]
    ctx.cov["distinct_nontrivial"] += rep["behaviours"] + rep["files"]
    ctx.extra_cov.update({k: rep[k] for k in ("files", "whole_reads", "token_runs", "stop_rule_reads", "behaviours",
                                               "collector_calls", "fragment_calls")})
    ctx.extra_cov["dictionary_facts_checked"] = nfacts
    R.report_classes(ctx, rep, "replay of TLC files/behaviours on from_reader/open_file/readers/DicomCollector")
    if rep["drift_item_len"]:
        ctx.note("drift: in %d collector portions the items of a sequence do not carry their recorded explicit length "
                 "(the whole-file read keeps it); not part of object equality, so not a violation" % rep["drift_item_len"])
    ctx.extra_cov["model_drift_cases"] = rep["drift_item_len"]
    k = 0
    with open(cases) as f:
        for ln in f:
            c = json.loads(ln)
            if "beh" in c and k < 3 and len(c["calls"]) >= 4 + k:
                ctx.sample({"fid": c["fid"], "calls": [{kk: vv for kk, vv in x.items() if kk != "res"} for x in c["calls"]]})
                k += 1

    # 3. token logs -> Trace_Reader
    out = vlib.validate_trace_cases(R.SPEC, "Trace_Reader", rep["trace_path"], cfg="Trace_Reader.cfg",
                                    reset_events=("reset",), timeout=3000, heap="6g")
    for tr in out["results"]:
        ctx.add_tlc(tr)
    ctx.cov["traces_validated_against_impl"] += rep["traced_cases"]
    ctx.extra_cov["trace_events_validated"] = rep["trace_events"]
    reader_bad = any(" reader: " in m["class"] for m in rep["mismatches"])
    if out["rejections"] and not reader_bad:
        rj = out["rejections"][0]
        raise vlib.ToolError("Trace_Reader rejects a token log that equals Layout!Toks (line %d: %s)" % (rj["line"], json.dumps(rj["record"])))
    if reader_bad and not out["rejections"]:
        raise vlib.ToolError("Trace_Reader accepted token logs that differ from Layout!Toks")
    ctx.exhaustive = False

    if not q:
        growth(ctx, cases)


def growth(ctx, cases):
    """Specification growth beyond C06 (thorough tier only; observations, never verdicts):
    (A) the whole collector call protocol, illegal calls included (CollectorProtocol.tla), every call sequence of
        length 5 over 7 small files replayed on the real DicomCollector;
    (B) DicomCollectorOptions variants (odd_length x charset_override x read_preamble, matching and contradicting
        the file; bare data sets with expected_ts) and (C) DataSetReaderOptions combinations (value_read x odd_length
        x eager/lazy/flexible) on every file of the C06 universe, incl. the mixed-length nesting and icon heads;
        read_until/read_to with stop tags that only occur inside nested items are part of the thorough stop set."""
    r = vlib.tlc(R.SPEC, "MC_Protocol", "MC_Protocol.cfg", workers=4, timeout=3000, heap="6g")
    ctx.check_model(r, "CollectorProtocol: illegal calls are no-ops, state sane")
    ctx.require_coverage(r, ["Pre", "Meta", "Take", "Portion", "Bot", "Frag"])
    ctx.extra_cov["growth_protocol_model_states"] = r.distinct
    pc = ctx.path("proto.ndjson")
    gr, n = vlib.tlc_generate(R.SPEC, "Gen_Protocol", "Gen_Protocol.cfg", pc, timeout=3000, heap="10g")
    ctx.add_tlc(gr)
    rep = vlib.run_driver(R.DRV, ["proto", "--cases", pc], env=ctx.env(), timeout=3000)
    ctx.extra_cov["growth_protocol"] = {k: rep[k] for k in ("behaviours", "calls", "illegal_calls", "illegal_calls_answered_ok")}
    vlib.log("[C06 growth] protocol: %d call sequences (%d calls, %d illegal) replayed" % (rep["behaviours"], rep["calls"], rep["illegal_calls"]))
    R.note_observations(ctx, rep, "collector protocol (every call in every state, sequences of length 5)", "growth_protocol")
    os.remove(pc)

    files = ctx.path("files.ndjson")
    with open(cases) as f, open(files, "w") as o:
        for ln in f:
            if '"beh":true' not in ln[:200] and '"rand":true' not in ln:
                o.write(ln)
    rep = vlib.run_driver(R.DRV, ["opts", "--cases", files], env=ctx.env(), timeout=3000)
    ctx.extra_cov["growth_options"] = {k: rep[k] for k in ("collector_option_runs", "bare_dataset_runs", "reader_option_runs")}
    vlib.log("[C06 growth] options: %d collector option runs, %d bare data set runs, %d reader option runs"
             % (rep["collector_option_runs"], rep["bare_dataset_runs"], rep["reader_option_runs"]))
    R.note_observations(ctx, rep, "collector / reader options on the C06 files", "growth_options")
