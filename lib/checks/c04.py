"""C04  Encoded output is structurally valid DICOM with exact lengths and padding.

The independent parser is the TLA+ operator PS35!Parse (lengths even and exact, explicit
items/sequences end where they say, undefined ones closed by the matching delimiter,
value widths, ascending tags); the padding byte per VR class is decided by comparing the
parsed content with PS35!RawTree (value fields = PS35!ValueBytes).

1. TLC enumerates the C01 data sets with PS35!Wire bytes and checks per case that
   Parse accepts Wire and returns exactly the content (ParseInvertsWire): every stream
   that dicom-rs later writes byte-identically to Wire is thereby judged well-formed by TLC.
2. drv_dataset writes every case (3 syntaxes + deflate inflated, default options and
   both strategies, in-memory and read-constructed objects).  Every distinct stream that
   is NOT byte-identical to the reference (and every K-th identical one) is recorded and
   validated by Trace_PS35 (event "stream").
3. Whole files from FileDicomObject::write_all (preamble, DICM, meta group, data set) are
   recorded and validated (event "file").
4. Byte-count accounting: Encode::encode_primitive (reported = written = Len(ValueRaw),
   calculate_byte_len) and StatefulEncoder::encode_primitive_element (bytes_written =
   written, bytes = ElementBytes) on the VR sweep values and seeded random values
   (events "prim", "elem"); the model DataSetWriter.tla carries the same accounting as an
   invariant (checked in C01).
5. Seeded random larger data sets (event "rt").
"""
import vlib
from checks import _ps35 as P


def run(ctx):
    q = ctx.quick
    ctx.level = "model_checking"
    ctx.rule = ("TLC checks Parse(Wire(ds)) = content(ds) for every generated case; every stream dicom-rs writes for these "
                "cases is either byte-identical to such a TLC-judged stream or validated by TLC itself (Trace_PS35), as "
                "are whole files, primitive-encoder byte counts and seeded random data sets. distinct_nontrivial = "
                "events validated by TLC + generated cases with at least one element.")
    ctx.assumptions += [
        "well-formedness = PS35!Parse accepts and content equals PS35!RawTree(ds) modulo length modes",
        "deflated output is inflated with flate2 before parsing",
        "in quick tier, of the streams byte-identical to PS35!Wire only every 40th is re-validated through the trace route "
        "(TLC already validated the identical reference stream in the generator run)",
    ]
    vlib.build_harness(["drv_dataset"])
    if P.replay(ctx, "C04"):
        return
    env = P.driver_env(ctx)
    sweeps = ["vr", "struct"] + ([] if q else ["struct3"])
    jobs = P.ds_jobs(ctx, sweeps)
    P.generate_parallel(ctx, jobs)
    cases = ctx.path("cases.ndjson")
    n = P.concat([j[2] for j in jobs], cases)
    if n < 5000:
        raise vlib.ToolError("too few cases generated: %d" % n)
    P.sample_cases(ctx, cases)

    rep = vlib.run_driver("drv_dataset", ["replay", "--cases", cases, "--out", ctx.path("replay"), "--props", "C04",
                                          "--sample", 40 if q else 4], env=env, timeout=3000)
    ctx.cov["evaluations"] += rep["writes"]
    ctx.cov["distinct_nontrivial"] += P.count_nontrivial(cases)
    ctx.extra_cov["streams_written"] = rep["writes"]
    ctx.extra_cov["distinct_streams_identical_to_reference"] = rep["streams_equal_to_wire"]
    ctx.extra_cov["streams_validated_by_trace"] = rep["streams_logged"]
    if rep["drift"]:
        ctx.note("%d written streams are not byte-identical to PS35!Wire (length modes); all are validated by Trace_PS35"
                 % rep["drift"])

    rf = vlib.run_driver("drv_dataset", ["files", "--cases", jobs[1][2], "--step", 60 if q else 6, "--out", ctx.path("files")],
                         env=env, timeout=3000)
    rp = vlib.run_driver("drv_dataset", ["prims", "--cases", jobs[0][2], "--n", 300 if q else 5000, "--out", ctx.path("prims")],
                         env=env, timeout=3000)
    rr = vlib.run_driver("drv_dataset", ["random", "--n", 120 if q else 3000, "--out", ctx.path("random")], env=env, timeout=3000)
    ctx.cov["evaluations"] += rf["cases"] + rp["cases"] * 2 + rr["cases"]
    ctx.extra_cov["files_written"] = rf["events"]
    ctx.extra_cov["primitive_encoder_events"] = rp["events"]
    ctx.extra_cov["random_datasets"] = rr["cases"]
    if rf["events"] < 10 or rp["events"] < 1000:
        raise vlib.ToolError("vacuity: too few file/primitive events (%d/%d)" % (rf["events"], rp["events"]))

    trace = ctx.path("c04_trace.ndjson")
    total = P.concat([rep["streams_path"], rf["path"], rp["path"], rr["path"]], trace)
    k = P.validate(ctx, "Trace_PS35", trace, "streams, files, primitive encoders, random data sets", max_rejections=8, heap="8g")
    ctx.cov["distinct_nontrivial"] += k
    ctx.extra_cov["trace_events_validated"] = total
    ctx.exhaustive = False
