"""C31  Command sets carry a correct Command Group Length.

CommandSet.tla defines the group length from the PS3.5 operators:
GroupLength(elems) = sum of Len(ElementBytes(IVRLE, e)) over the other group-0000
elements, and CommandWire(elems) = the Implicit VR LE encoding of the whole set.
1. TLC enumerates element sets (Gen_Cmd: every 1..6-element subset of seven command
   attributes over VRs UI, US, UL, AE, LO, AT; text value lengths {0,1,2,3,max};
   multiplicity 1..3) with expected group length and bytes, and checks the reference is
   self-consistent (the written set parses and (0000,0000) = size - 12).
2. drv_command builds each set with InMemDicomObject::command_from_element_iter, reads
   (0000,0000), writes the set in IVRLE and compares value, size and bytes.
3. Seeded random element sets (random tags in group 0000, empty values, multiplicity
   0..3, text lengths 0..64) are recorded and judged by TLC (Trace_Cmd).
"""
import json

import vlib
from checks import _ps35 as P


def run(ctx):
    q = ctx.quick
    ctx.level = "model_checking"
    ctx.rule = ("TLC enumerates command element sets with the expected Command Group Length and IVRLE bytes from "
                "CommandSet.tla (built on PS35!ElementBytes); each is built with command_from_element_iter, read and "
                "written; seeded random sets are judged by TLC (Trace_Cmd). distinct_nontrivial = generated sets + "
                "random sets.")
    ctx.assumptions += ["default repertoire; values valid for their VR (AE <= 16, UI/LO <= 64 characters)",
                        "only group-0000 elements are handed to the constructor"]
    vlib.build_harness(["drv_command"])
    if P.replay(ctx, "C31"):
        return
    env = P.driver_env(ctx)
    cases = ctx.path("cmd_cases.ndjson")
    res = P.generate_parallel(ctx, [("Gen_Cmd", "Gen_Cmd.cfg", cases)])
    n = res[0]["n"]
    if n < 1000:
        raise vlib.ToolError("too few command cases: %d" % n)
    odd = 0
    multi_odd_str = 0
    with open(cases) as f:
        for i, ln in enumerate(f):
            c = json.loads(ln)
            if any((sum(len(x) for x in e["v"]) + max(0, len(e["v"]) - 1)) % 2 for e in c["elems"]):
                odd += 1
            if sum(1 for e in c["elems"] if e.get("form") == "str" and len(e["v"][0]) % 2) >= 2:
                multi_odd_str += 1
            if i in (0, n // 2, n - 1):
                ctx.sample(c)
    if odd == 0:
        raise vlib.ToolError("vacuity: no case with an odd-length value (padding never counted)")
    if multi_odd_str == 0:
        raise vlib.ToolError("vacuity: no case with two or more odd-length single-string values")
    ctx.extra_cov["cases_with_odd_length_value"] = odd
    ctx.extra_cov["cases_with_two_or_more_odd_single_strings"] = multi_odd_str
    rep = vlib.run_driver("drv_command", ["cases", "--cases", cases], env=env)
    ctx.cov["evaluations"] += rep["cases"]
    ctx.cov["distinct_nontrivial"] += rep["cases"]
    for m in rep["mismatches"]:
        ctx.violation(m["fp"], json.dumps({k: v for k, v in m.items() if k not in ("case", "fp")})[:300]
                      + " elems=" + json.dumps(m["case"]["elems"])[:500], m)
    tr = ctx.path("cmd_trace.ndjson")
    rr = vlib.run_driver("drv_command", ["random", "--n", 400 if q else 6000, "--out", tr], env=env)
    ctx.cov["evaluations"] += rr["cases"]
    ctx.cov["distinct_nontrivial"] += rr["cases"]
    P.validate(ctx, "Trace_Cmd", tr, "seeded random command sets")
    ctx.exhaustive = False
