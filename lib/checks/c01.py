"""C01  Data set write-then-read round trip in every writable transfer syntax.

1. TLC enumerates abstract data sets (Gen_DS: VR sweep = 33 primitive VRs x multiplicity
   0..3 x odd/even x standard/private tag; structure sweep = nesting depth <= 3,
   explicit/undefined length modes at every level, empty sequences/items, pixel fragment
   sequences) x {IVRLE, EVRLE, EVRBE}, computes the PS3.5 byte stream for both writer
   strategies (PS35!Wire) and the expected read-back (PS35!Norm), and checks for every
   case that the independent TLA+ parser inverts the reference encoder.
2. TLC model-checks the implementation-shaped writer machine DataSetWriter.tla over the
   token streams of the structure set (accounting, balanced delimiters, output = Wire,
   no recorded explicit item length survives the default strategy, output always valid)
   and prints every run; the runs are replayed on the real DataSetWriter.
3. drv_dataset builds each data set as an InMemDicomObject (in memory, and by reading the
   reference stream when items carry explicit lengths), writes it with the default options
   and both strategies in the case's syntax (+ Deflated Explicit VR LE for EVRLE cases,
   inflated for the byte comparison), reads it back with the same syntax and compares the
   projection with PS35!Norm.  A failing/panicking write, a failing read, or a differing
   read-back is a violation.  Byte differences from PS35!Wire alone are drift.
4. Seeded random larger data sets (all VRs incl. typed dates/times/numbers, depth <= 4)
   are written and read back; Trace_PS35 (TLC) judges stream and read-back per event.
5. Thorough tier only, growth beyond the listed properties (observations are notes):
   ObjectEdit.tla (objects read with recorded lengths, edited through apply /
   update_value_at / nested update_value, written with both strategies: TLC predicts the
   bytes and which runs are malformed; replayed on the real API) and Trace_Dump.tla
   (dicom_dump text/JSON outlines of every object of the sweeps under every option
   combination, judged at property level and against a model of dump/src/lib.rs).
"""
import json
import os
import time

import vlib
from checks import _ps35 as P


def run(ctx):
    q = ctx.quick
    ctx.level = "model_checking"
    ctx.rule = ("TLC enumerates data sets x transfer syntaxes with expected bytes (PS35!Wire) and read-back (PS35!Norm); "
                "every case is executed on InMemDicomObject write/read (3 syntaxes + deflate, default options and both "
                "strategies, in-memory and read-constructed objects); DataSetWriter.tla is model-checked and each of its "
                "runs replayed on the real DataSetWriter; seeded random data sets are judged by TLC (Trace_PS35). "
                "distinct_nontrivial = generated (data set, syntax) cases with at least one element + writer runs.")
    ctx.assumptions += [
        "read-back equality is up to PS35!Norm only: padding trimmed from the last text value, empty value field = empty "
        "value, odd OB/UN values and fragments come back padded, Implicit VR takes the dictionary VR (UN + raw value field "
        "for unknown tags), length modes ignored",
        "dictionary facts of PS35Dict.tla (Selector*Value attributes etc.); sequences use standard SQ tags",
        "typed DA/TM/DT/IS/DS values (random route) are compared by the text dicom-rs prints for them (to_encoded / "
        "to_multi_str), as the property allows",
        "default repertoire plus ISO_IR 100 and ISO_IR 192 for PN/LO/SH/LT/ST/UT; values valid for their VR; fragments of even length",
    ]
    vlib.build_harness(["drv_dataset"])
    if P.replay(ctx, "C01"):
        return
    env = P.driver_env(ctx)
    sweeps = ["vr", "struct"] + ([] if q else ["struct3"])
    # C01 needs Wire and Norm only; the parser obligations (ParseInvertsWire) are checked by C02/C04's runs
    jobs = [("Gen_DS", "Gen_DS_%s_emit.cfg" % s, ctx.path("cases_%s.ndjson" % s)) for s in sweeps] + [("DataSetWriter", "Gen_DataSetWriter.cfg" if q else "Gen_DataSetWriter_thorough.cfg",
                                      ctx.path("writer_runs.ndjson"))]
    res = P.generate_parallel(ctx, jobs)
    cases = ctx.path("cases.ndjson")
    n = P.concat([j[2] for j in jobs[:-1]], cases)
    if n < 5000:
        raise vlib.ToolError("too few cases generated: %d" % n)
    P.sample_cases(ctx, cases)

    vlib.log('[C01] generation done at %.0fs' % (time.time() - ctx.t0))
    # 2. writer machine runs -> real DataSetWriter
    rep_t = vlib.run_driver("drv_dataset", ["tokens", "--cases", jobs[-1][2], "--out", ctx.path("tok")], env=env, timeout=3000)
    kinds = rep_t["token_kinds"]
    missing = [k for k in ("SeqStart", "ItemStart", "ItemEnd", "SeqEnd", "Header", "Value", "PixStart", "OffsetTable", "ItemValue")
               if not kinds.get(k)]
    if missing:
        raise vlib.ToolError("vacuity: writer actions never taken in model: %s" % missing)
    ctx.cov["evaluations"] += rep_t["cases"]
    ctx.cov["distinct_nontrivial"] += rep_t["cases"]
    ctx.extra_cov["writer_model_runs_replayed"] = rep_t["cases"]
    ctx.extra_cov["writer_model_drift"] = rep_t["drift"]
    P.report_mismatches(ctx, rep_t, "C01")
    if rep_t["drift"]:
        ctx.note("drift: %d runs where the real DataSetWriter output differs from DataSetWriter.tla (judged at property "
                 "level by Trace_PS35); first: %s" % (rep_t["drift"], json.dumps(rep_t["drift_first"])[:500]))
        P.validate(ctx, "Trace_PS35", rep_t["streams_path"], "writer runs differing from the model")

    vlib.log('[C01] writer runs replayed at %.0fs' % (time.time() - ctx.t0))
    # 3. cases -> InMemDicomObject write / read
    rep = vlib.run_driver("drv_dataset", ["replay", "--cases", cases, "--out", ctx.path("replay"), "--props", "C01"],
                          env=env, timeout=3000)
    ctx.cov["evaluations"] += rep["writes"] + rep["reads"]
    ctx.cov["distinct_nontrivial"] += P.count_nontrivial(cases)
    ctx.extra_cov["cases"] = rep["cases"]
    ctx.extra_cov["writes"] = rep["writes"]
    ctx.extra_cov["reads"] = rep["reads"]
    ctx.extra_cov["byte_drift_from_Wire"] = rep["drift"]
    P.report_mismatches(ctx, rep, "C01")
    if rep["drift"]:
        d = rep["drift_first"]
        ctx.note("drift: %d written streams differ in bytes from PS35!Wire while the round trip holds (length modes; "
                 "C04 judges their validity); first via %s on %s" % (rep["drift"], d.get("via"), d.get("shape")))

    vlib.log('[C01] cases replayed at %.0fs' % (time.time() - ctx.t0))
    # 4. random larger data sets, judged by TLC
    rr = vlib.run_driver("drv_dataset", ["random", "--n", 240 if q else 4000, "--out", ctx.path("random")], env=env, timeout=3000)
    ctx.cov["evaluations"] += rr["cases"]
    ctx.cov["distinct_nontrivial"] += rr["cases"]
    ctx.extra_cov["random_datasets"] = rr["cases"]
    ctx.extra_cov["random_bytes"] = rr["bytes_total"]
    P.validate(ctx, "Trace_PS35", rr["path"], "seeded random data sets")
    ctx.exhaustive = False
    if not q:
        growth(ctx, env, cases)


def growth(ctx, env, cases):
    """Specification growth beyond the listed properties (thorough tier only).  Observations are
    notes / extra coverage; only a panic of a writer or dumper on a well-formed object is a C01
    violation ("writing never fails and never panics")."""
    # A. objects read with recorded lengths, edited in memory, written again (ObjectEdit.tla)
    ecases = ctx.path("edit_runs.ndjson")
    res = P.generate_parallel(ctx, [("ObjectEdit", "MC_ObjectEdit.cfg", ecases)])
    re_ = vlib.run_driver("drv_dataset", ["edits", "--cases", ecases, "--out", ctx.path("edits")], env=env, timeout=3000)
    ctx.cov["evaluations"] += re_["cases"]
    ctx.extra_cov["edit_model_states"] = res[0]["distinct"]
    ctx.extra_cov["edit_runs_replayed"] = re_["cases"]
    ctx.extra_cov["edit_runs_bytes_equal_to_model"] = re_["equal_to_model"]
    ctx.extra_cov["edit_runs_malformed_output"] = re_["predicted_malformed"]
    ctx.extra_cov["edit_runs_malformed_kinds"] = re_["malformed_kinds"]
    ctx.extra_cov["edit_runs_valid_and_read_back_equal"] = re_["valid_read_back_equal"]
    for m in re_["mismatches"]:
        if m.get("prop") == "C01":
            ctx.violation(m["fp"], json.dumps({k: v for k, v in m.items() if k != "case"})[:500], m)
        else:
            ctx.note("edited objects (outside the listed properties): %s: %s" % (m["fp"], str(m.get("error", ""))[:200]))
    if re_["predicted_malformed"]:
        ctx.note("observation (outside the listed properties; documented caller obligation of ExplicitLengthSqItemStrategy::NoChange): "
                 "%d of %d edit runs write a malformed stream because a recorded item length became stale, exactly as "
                 "ObjectEdit.tla predicts: %s.  InMemDicomObject::apply resets the sequences on the selector path and the "
                 "object holding the leaf, update_value_at resets the sequences and the root only (its doc says 'resets all "
                 "related lengths recorded'); items passed on the way keep their recorded length.  With the default strategy "
                 "every such run is valid." % (re_["predicted_malformed"], re_["cases"], json.dumps(re_["malformed_kinds"])))
    if re_["valid_read_back_differs"]:
        ctx.note("edited objects: %d runs predicted valid do not read back equal: %s" % (re_["valid_read_back_differs"], re_["valid_read_back_notes"]))
    if re_["drift"]:
        ctx.note("edited objects: %d runs differ in bytes from ObjectEdit.tla; first: %s" % (re_["drift"], json.dumps(re_["drift_first"])[:400]))
        P.validate_as_notes(ctx, "Trace_PS35", re_["streams_path"], "edited objects differing from the model", P.EVENTS)

    # B. dicom_dump as a consumer of the same objects (Trace_Dump.tla)
    rd = vlib.run_driver("drv_dataset", ["dump", "--cases", cases, "--out", ctx.path("dump")], env=env, timeout=3000)
    ctx.cov["evaluations"] += rd["dump_calls"]
    ctx.extra_cov["dump_objects"] = rd["objects"]
    ctx.extra_cov["dump_calls"] = rd["dump_calls"]
    for m in rd["mismatches"]:
        if m.get("prop") == "C01":
            ctx.violation(m["fp"], json.dumps({k: v for k, v in m.items() if k != "case"})[:500], m)
        else:
            ctx.note("dicom_dump (outside the listed properties): %s: %s" % (m["fp"], str(m.get("error", ""))[:200]))
    if rd["json_failures"]:
        ctx.note("dicom_dump JSON format fails for %d objects; first: %s" % (rd["json_failures"], json.dumps(rd["json_failure_first"])[:300]))
    if rd["option_variants_differ"]:
        ctx.note("dicom_dump: %d objects whose outline depends on width / limits" % rd["option_variants_differ"])
    n1, rj1 = P.validate_as_notes(ctx, "Trace_Dump", rd["property_path"], "dicom_dump outline, property level", ("dump",))
    n2, rj2 = P.validate_as_notes(ctx, "Trace_Dump", rd["model_path"], "dicom_dump outline, model of dump/src/lib.rs", ("dump",))
    ctx.extra_cov["dump_outlines_validated"] = n1 + n2
    ctx.extra_cov["dump_outline_rejections"] = {"property": len(rj1), "model": len(rj2)}
