"""C01  Data set write-then-read round trip in every writable transfer syntax.

1. TLC enumerates abstract data sets (Gen_DS: VR sweep = 33 primitive VRs x multiplicity
   0..3 x odd/even x standard/private tag; structure sweep = nesting depth <= 3,
   explicit/undefined length modes at every level, empty sequences/items, pixel fragment
   sequences) x {IVRLE, EVRLE, EVRBE}, computes the PS3.5 byte stream for both writer
   strategies (PS35!Wire) and the expected read-back (PS35!Norm), and checks for every
   case that the independent TLA+ parser inverts the reference encoder.
2. TLC model-checks the implementation-shaped writer machine DataSetWriter.tla over the
   token streams of the structure set (accounting, balanced delimiters, output = Wire
   unless a recorded explicit item length survives after a pixel sequence, output always
   valid) and prints every run; the runs are replayed on the real DataSetWriter.
3. drv_dataset builds each data set as an InMemDicomObject (in memory, and by reading the
   reference stream when items carry explicit lengths), writes it with the default options
   and both strategies in the case's syntax (+ Deflated Explicit VR LE for EVRLE cases,
   inflated for the byte comparison), reads it back with the same syntax and compares the
   projection with PS35!Norm.  A failing/panicking write, a failing read, or a differing
   read-back is a violation.  Byte differences from PS35!Wire alone are drift.
4. Seeded random larger data sets (all VRs incl. typed dates/times/numbers, depth <= 4)
   are written and read back; Trace_PS35 (TLC) judges stream and read-back per event.
"""
import json
import os
import time

import vlib
from checks import _ps35 as P


def run(ctx):
    q = ctx.quick
    ctx.level = "model_checking"
    ctx.rule = ("TLC enumerates data sets x transfer syntaxes with expected bytes (PS35!Wire) and read-back (PS35!Norm); "
                "every case is executed on InMemDicomObject write/read (3 syntaxes + deflate, default options and both "
                "strategies, in-memory and read-constructed objects); DataSetWriter.tla is model-checked and each of its "
                "runs replayed on the real DataSetWriter; seeded random data sets are judged by TLC (Trace_PS35). "
                "distinct_nontrivial = generated (data set, syntax) cases with at least one element + writer runs.")
    ctx.assumptions += [
        "read-back equality is up to PS35!Norm only: padding trimmed from the last text value, empty value field = empty "
        "value, odd OB/UN values and fragments come back padded, Implicit VR takes the dictionary VR (UN + raw value field "
        "for unknown tags), length modes ignored",
        "dictionary facts of PS35Dict.tla (Selector*Value attributes etc.); sequences use standard SQ tags",
        "typed DA/TM/DT/IS/DS values (random route) are compared by the text dicom-rs prints for them (to_encoded / "
        "to_multi_str), as the property allows",
        "default repertoire plus ISO_IR 100 and ISO_IR 192 for PN/LO/SH/LT/ST/UT; values valid for their VR; fragments of even length",
    ]
    vlib.build_harness(["drv_dataset"])
    if P.replay(ctx, "C01"):
        return
    env = P.driver_env(ctx)
    sweeps = ["vr", "struct"] + ([] if q else ["struct3"])
    # C01 needs Wire and Norm only; the parser obligations (ParseInvertsWire) are checked by C02/C04's runs
    jobs = [("Gen_DS", "Gen_DS_%s_emit.cfg" % s, ctx.path("cases_%s.ndjson" % s)) for s in sweeps] + [("DataSetWriter", "Gen_DataSetWriter.cfg" if q else "Gen_DataSetWriter_thorough.cfg",
                                      ctx.path("writer_runs.ndjson"))]
    res = P.generate_parallel(ctx, jobs)
    cases = ctx.path("cases.ndjson")
    n = P.concat([j[2] for j in jobs[:-1]], cases)
    if n < 5000:
        raise vlib.ToolError("too few cases generated: %d" % n)
    P.sample_cases(ctx, cases)

    vlib.log('[C01] generation done at %.0fs' % (time.time() - ctx.t0))
    # 2. writer machine runs -> real DataSetWriter
    rep_t = vlib.run_driver("drv_dataset", ["tokens", "--cases", jobs[-1][2], "--out", ctx.path("tok")], env=env, timeout=3000)
    kinds = rep_t["token_kinds"]
    missing = [k for k in ("SeqStart", "ItemStart", "ItemEnd", "SeqEnd", "Header", "Value", "PixStart", "OffsetTable", "ItemValue")
               if not kinds.get(k)]
    if missing:
        raise vlib.ToolError("vacuity: writer actions never taken in model: %s" % missing)
    ctx.cov["evaluations"] += rep_t["cases"]
    ctx.cov["distinct_nontrivial"] += rep_t["cases"]
    ctx.extra_cov["writer_model_runs_replayed"] = rep_t["cases"]
    ctx.extra_cov["writer_model_drift"] = rep_t["drift"]
    P.report_mismatches(ctx, rep_t, "C01")
    if rep_t["drift"]:
        ctx.note("drift: %d runs where the real DataSetWriter output differs from DataSetWriter.tla (judged at property "
                 "level by Trace_PS35); first: %s" % (rep_t["drift"], json.dumps(rep_t["drift_first"])[:500]))
        P.validate(ctx, "Trace_PS35", rep_t["streams_path"], "writer runs differing from the model")

    vlib.log('[C01] writer runs replayed at %.0fs' % (time.time() - ctx.t0))
    # 3. cases -> InMemDicomObject write / read
    rep = vlib.run_driver("drv_dataset", ["replay", "--cases", cases, "--out", ctx.path("replay"), "--props", "C01"],
                          env=env, timeout=3000)
    ctx.cov["evaluations"] += rep["writes"] + rep["reads"]
    ctx.cov["distinct_nontrivial"] += P.count_nontrivial(cases)
    ctx.extra_cov["cases"] = rep["cases"]
    ctx.extra_cov["writes"] = rep["writes"]
    ctx.extra_cov["reads"] = rep["reads"]
    ctx.extra_cov["byte_drift_from_Wire"] = rep["drift"]
    P.report_mismatches(ctx, rep, "C01")
    if rep["drift"]:
        d = rep["drift_first"]
        ctx.note("drift: %d written streams differ in bytes from PS35!Wire while the round trip holds (length modes; "
                 "C04 judges their validity); first via %s on %s" % (rep["drift"], d.get("via"), d.get("shape")))

    vlib.log('[C01] cases replayed at %.0fs' % (time.time() - ctx.t0))
    # 4. random larger data sets, judged by TLC
    rr = vlib.run_driver("drv_dataset", ["random", "--n", 240 if q else 4000, "--out", ctx.path("random")], env=env, timeout=3000)
    ctx.cov["evaluations"] += rr["cases"]
    ctx.cov["distinct_nontrivial"] += rr["cases"]
    ctx.extra_cov["random_datasets"] = rr["cases"]
    ctx.extra_cov["random_bytes"] = rr["bytes_total"]
    P.validate(ctx, "Trace_PS35", rr["path"], "seeded random data sets")
    ctx.exhaustive = False
