"""C24  DICOM JSON output conforms to PS3.18 Annex F.

1. TLC checks the Annex F operators of specs/json/DicomJson.tla against test vectors and,
   on every generated case, the implementation-shaped Shape(ds) against the property-level
   predicate Conforms(ds, j).
2. TLC enumerates data sets (every VR x in-memory representation x multiplicity 0..3 x
   value alphabet; structures with nested sequences) and prints ds and Shape(ds).
3. drv_json builds each data set, serialises it with dicom_json::to_string (and to_value),
   re-reads the *text* with a generic JSON reader into a neutral ordered tree and records
   {ds, shape}.  Plain inequality with Shape(ds) is drift; the verdict is TLC's:
   Trace_DicomJson (Mode = shape) evaluates Conforms(ds, shape) on every event, also on
   seeded random larger data sets.
"""
import json

import vlib
from checks import _json as J


def fingerprint(diag):
    if any(d.startswith("ser:") for d in diag):
        return "serialisation fails (%s)" % ",".join(d[4:] for d in diag)
    if "keys" in diag:
        return "data set keys are not the eight upper-case hex digit tags in ascending order"
    return "JSON rendering of VR %s does not follow the Annex F mapping" % J.vr_list(diag)


def report(ctx, bad, texts, label):
    for line, diag, ev in sorted(bad, key=lambda b: (len(json.dumps(b[2]['ds'])), b[0])):
        fp = fingerprint(diag)
        ctx.violation(fp, "%s: data set %s was serialised as %s" % (label, json.dumps(ev["ds"])[:400], (texts.get(line) or ev.get("msg") or "")[:400]),
                      {"event": ev, "json_text": texts.get(line), "diagnosis": diag, "source": label})


def run(ctx):
    q = ctx.quick
    if getattr(ctx, "replay", None):
        return J.replay(ctx, "shape", lambda bad, texts, label: report(ctx, bad, texts, label))
    ctx.level = "model_checking"
    ctx.rule = ("TLC enumerates abstract data sets (34 VRs x in-memory representations x multiplicity 0..3 x value alphabets, "
                "structures with sequences nested to depth 2) and judges the neutral JSON tree of every real output with the "
                "Annex F predicate Conforms(ds, j) of DicomJson.tla; seeded random larger data sets are judged the same way. "
                "distinct_nontrivial = distinct data sets with at least one non-empty value whose output was judged.")
    ctx.assumptions += [
        "the output text is re-read by serde_json through an order- and duplicate-preserving visitor; a JSON number token is "
        "identified with the shortest decimal of the f64 it parses to",
        "where Annex F / the property leave a choice (IS, DS, SV, UV as number or numeric string; PN component groups; a "
        "zero-item sequence as absent Value or empty array; trailing padding) Conforms accepts every choice",
        "in-memory values are canonical: Strs/Str for text (no empty strings, backslash only in single-valued text VRs held "
        "as Str), typed binary values, PrimitiveValue::Empty for zero length",
    ]
    vlib.build_harness(["drv_json"])
    r = vlib.tlc(J.SPEC, "MC_DicomJson", "MC_DicomJson.cfg", workers=1, timeout=600, coverage=False)
    ctx.check_model(r, "test vectors of the Annex F operators")
    cases, n = J.generate(ctx)

    rep = vlib.run_driver("drv_json", ["cases", "--cases", cases, "--out", ctx.path("cases")], env=ctx.env())
    rep2 = vlib.run_driver("drv_json", ["random", "--n", 400 if q else 10000, "--out", ctx.path("random")], env=ctx.env())

    def corrupt_key(e):          # the first key written in lower case / shifted
        m = e.get("shape", {}).get("m")
        if not m:
            return False
        m[0]["k"] = m[0]["k"].lower() if m[0]["k"].lower() != m[0]["k"] else "0" + m[0]["k"][:7]
        return True

    def corrupt_vr(e):           # the vr member of the first element dropped
        m = e.get("shape", {}).get("m")
        if not m:
            return False
        m[0]["v"]["m"] = [x for x in m[0]["v"]["m"] if x["k"] != "vr"]
        return True

    bad, nev = J.judge_all(ctx, "shape", [("TLC-generated data set", rep["events_path"]), ("seeded random data set", rep2["events_path"])],
                           [("TLC-generated data set", corrupt_key), ("TLC-generated data set", corrupt_vr)])
    report(ctx, bad["TLC-generated data set"], J.texts_of(rep["texts_path"]), "TLC-generated data set")
    report(ctx, bad["seeded random data set"], J.texts_of(rep2["texts_path"]), "seeded random data set")
    ctx.cov["evaluations"] += rep["cases"] + rep2["cases"]
    ctx.cov["distinct_nontrivial"] += rep["nontrivial"] + rep2["cases"]
    ctx.cov["traces_validated_against_impl"] += nev
    ctx.extra_cov["vr_representation_pairs"] = rep["vr_reps"]
    ctx.extra_cov["random_elements"] = rep2["elements"]
    ctx.extra_cov["drift_from_Shape"] = rep["drift_shape"]
    n_bad = len(bad["TLC-generated data set"])
    if rep["drift_shape"] > n_bad:
        ctx.note("drift: %d outputs differ from the implementation-shaped Shape(ds) but %d of them conform to Annex F; first: %s"
                 % (rep["drift_shape"], rep["drift_shape"] - n_bad,
                    json.dumps([m for m in rep["mismatches"] if m["kind"] == "shape"][:1])[:600]))
    with open(cases) as f:
        for i, ln in enumerate(f):
            if i in (7, n // 3, n - 5):
                c = json.loads(ln)
                ctx.sample({"ds": c["ds"], "expected_shape": c["shape"]})
    ctx.exhaustive = False


def replay(ctx, obj):
    run(ctx)
