"""Growth beyond the listed properties (thorough tier only): the decoded-image conversion
pipeline under ConvertOptions (specs/pixel/Pipeline.tla), colour / palette images through
decode + transcode, Extended Offset Table handling.

TLC generates the cases (Gen_Pipeline), drv_pipeline executes them on the real code,
Trace_Pipeline (TLC) judges every event with the operators of module Pipeline and prints the
names of the failed checks plus the effective VOI kind of the case.

Routing of a deviation:
  * monochrome image, a LUT applies, effective VOI transformation 'none' (modality only) or
    'window', any of the APIs  ->  inside the statement of C22 ("the value produced ... equals
    slope*value+intercept, and with a window applied equals the PS3.3 formula ...")
    -> ctx.violation (only when called from the C22 check);
  * everything else (ModalityLutOption::None, Normalize, colour, palette, transcoding of
    colour images, Extended Offset Table) is outside every listed property
    -> ctx.note + ctx.extra_cov, never a violation.
"""
import collections
import json

import vlib
from checks import _pixel as P

OBS_TEXT = {
    "nolut": "ModalityLutOption::None: samples are not 'extracted based on bits allocated and pixel representation' "
             "(8-bit signed data comes out unsigned in to_vec*, and is not shifted to an unsigned scale in to_dynamic_image "
             "as the 16-bit branch does)",
    "normalize": "min-max normalisation (VoiLutOption::Normalize, or First/Default without a window): minimum and maximum are "
                 "taken over the raw stored samples, so signed data and bits above the high bit give a wrong window; "
                 "for 8-bit images to_vec with VoiLutOption::First and no window does not normalise at all (the 16-bit branch does)",
    "colour": "colour / palette image through to_dynamic_image / to_vec: YBR_FULL -> RGB conversion (PS3.3 C.7.6.3.1.2: "
              "G = Y - 0.344136 (Cb-128) - 0.714136 (Cr-128)) resp. PALETTE COLOR expected to be refused or palette-mapped",
    "transcode": "the attributes that say how to read the unchanged pixel bytes must not change; the decoded view must describe the bytes",
    "eot": "a transcoded object must not keep an Extended Offset Table that no longer describes its fragments",
}


def feature(e):
    rel = "<" if e["bs"] < e["ba"] else "="
    return "%d bits allocated, bits stored %s allocated, %s" % (e["ba"], rel, "signed" if e["signed"] else "unsigned")


def summary(e):
    """one-line concrete description of a deviating case"""
    if e["api"] == "transcode":
        return ("%s %d-bit planar %d -> %s -> EVRLE: pixel bytes %s; PhotometricInterpretation %r -> %r; PlanarConfiguration attribute %s; "
                "decode_pixel_data of the intermediate object reports pi=%r planar=%s" % (
                    e["pi"], e["ba"], e["planar"], e["target"],
                    "unchanged", e["pi"], e["final"]["pi"], e["mid"]["planar"], e["mid"]["dpi"], e["mid"]["dplanar"]))
    if e["api"] == "eot":
        a = e["after"]
        return ("Encapsulated Uncompressed with table offsets=%s lengths=%s transcoded to %s: attributes still present=%s with "
                "offsets=%s lengths=%s; the object now has %s" % (
                    e["before"]["offsets"], e["before"]["lengths"], e["target"], a["present"], a["offsets"], a["lengths"],
                    "native pixel data" if a["native"] else "fragments of lengths %s" % a["frag_lens"]))
    f = e["frame"] if e["api"] != "vec" else 0
    out = e["out"]
    if e["api"] != "img":
        out = [round(p[0] + p[1] / 16384.0, 4) for p in out]
    return ("%s: pi=%s ba=%d bs=%d %s planar=%d stored(frame %d)=%s rescale=%s(/4) window=%s(c/4,w) fn=%r options mod=%s voi=%s cw=%s depth=%s pi_opt=%s "
            "-> res=%s %s out=%s" % (
                {"img": "to_dynamic_image_with_options(%d)" % f, "vec": "to_vec_with_options::<f64>", "framevec": "decode_pixel_data_frame(%d).to_vec_with_options::<f64>" % f}[e["api"]],
                e["pi"], e["ba"], e["bs"], "signed" if e["signed"] else "unsigned", e["planar"], f, e["raws"][f], e["resc"], e["win"], e["vfn"],
                e["mod"], e["voi"], e["cw"], e["depth"], e["piopt"], e["res"][:60], e.get("variant", ""), out[:12]))


def run_family(ctx, family, in_c22):
    cases = ctx.path("pipeline_%s.ndjson" % family)
    n = P.generate(ctx, "Gen_Pipeline", "Gen_Pipeline_%s.cfg" % family, cases, heap="8g", timeout=3000)
    trace = ctx.path("pipeline_%s_trace.ndjson" % family)
    rep = vlib.run_driver("drv_pipeline", ["run", "--cases", cases, "--out", trace], env=ctx.env())
    fails = P.validate_independent(ctx, "Trace_Pipeline", trace, timeout=6000, heap="8g")
    ctx.cov["evaluations"] += rep["events"]
    ctx.cov["distinct_nontrivial"] += rep["events"]
    obs = collections.OrderedDict()
    inside = 0
    for ln, why, e in fails:
        eff = [w[4:] for w in why if w.startswith("eff:")]
        eff = eff[0] if eff else "?"
        names = sorted(w for w in why if not w.startswith("eff:"))
        if eff in ("none", "window"):
            # inside the statement of C22
            inside += 1
            if in_c22:
                fp = "conversion pipeline: %s differs from the formula (%s, VOI %s, %s)" % (
                    "+".join(names), {"img": "to_dynamic_image", "vec": "to_vec", "framevec": "decode_pixel_data_frame+to_vec"}[e["api"]],
                    eff, feature(e))
                ctx.violation(fp, "event %d: %s" % (ln, json.dumps({k: v for k, v in e.items() if k not in ("ev",)})[:900]),
                              {"event": e, "failed_checks": names})
            continue
        if e["api"] == "transcode":
            key = ("transcode", "%s planar %d -> %s" % (e["pi"], e["planar"], "encapsulated" if e["target"] != "EVRBE" else "EVRBE"),
                   "+".join(names))
        elif e["api"] == "eot":
            key = ("eot", "-> " + e["target"], "+".join(names))
        elif eff == "colour":
            key = ("colour", "%s %d-bit planar %d via %s" % (e["pi"], e["ba"], e["planar"], e["api"]), "+".join(names))
        else:
            key = (eff, "%s, %s" % ({"img": "to_dynamic_image", "vec": "to_vec", "framevec": "to_vec"}[e["api"]], feature(e)), "+".join(names))
        o = obs.setdefault(key, {"count": 0, "example": None})
        o["count"] += 1
        if o["example"] is None:
            o["example"] = summary(e)
    return rep["events"], len(fails), inside, obs


def report(ctx, title, events, nfail, inside, obs):
    ctx.extra_cov.setdefault("pipeline_growth", []).append(
        {"stage": title, "cases": events, "deviating_cases": nfail, "inside_C22_statement": inside,
         "observations": [{"class": k[0], "where": k[1], "failed_checks": k[2], "cases": v["count"], "example": v["example"]}
                          for k, v in obs.items()]})
    ctx.note("%s: %d cases judged by TLC, %d deviate from the documented pipeline (%d inside the statement of C22)" % (
        title, events, nfail, inside))
    by_class = collections.OrderedDict()
    for k, v in obs.items():
        by_class.setdefault(k[0], []).append((k, v))
    for cls, items in by_class.items():
        where = "; ".join("%s [%s] x%d" % (k[1], k[2], v["count"]) for k, v in items)
        ctx.note("observation [%s] (%s). Deviating: %s. Example: %s" % (cls, OBS_TEXT.get(cls, ""), where[:900], items[0][1]["example"][:600]))


def run_conversion(ctx):
    """mono + colour families; called from the C22 check (thorough tier)"""
    vlib.build_harness(["drv_pipeline"])
    for fam in ("mono", "colour"):
        ev, nf, inside, obs = run_family(ctx, fam, in_c22=True)
        report(ctx, "conversion pipeline (%s images)" % fam, ev, nf, inside, obs)


def run_transcode(ctx):
    """colour / palette transcoding + Extended Offset Table; called from the C19 check (thorough tier)"""
    vlib.build_harness(["drv_pipeline"])
    ev, nf, inside, obs = run_family(ctx, "transcode", in_c22=False)
    report(ctx, "colour / palette images through transcode, Extended Offset Table", ev, nf, inside, obs)
    ctx.note("Extended Offset Table: neither dicom-pixeldata's encapsulation helpers / transcoder nor the object reader or writer "
             "create or interpret (7FE0,0001)/(7FE0,0002); only the fromimage tool removes them. The model therefore only states "
             "that a transcoded object must not keep a table that no longer describes its fragments.")
