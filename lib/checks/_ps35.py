"""Shared helpers for the PS3.5 data-set checks (C01, C02, C04, C31).

Only orchestration: TLC generates the cases (with expected bytes / read-back from
PS35.tla), the Rust drivers execute them, TLC validates recorded traces."""
import concurrent.futures
import json
import os

import vlib

SPEC = os.path.join(vlib.SPECS, "ps35")
EVENTS = ("stream", "rt", "prim", "elem", "file", "cmd")


def _gen(args):
    module, cfg, out, heap = args
    r, n = vlib.tlc_generate(SPEC, module, cfg, out, timeout=3000, heap=heap)
    return {"module": module, "cfg": cfg, "out": out, "n": n, "distinct": r.distinct, "generated": r.generated,
            "wall_s": r.wall_s}


def generate_parallel(ctx, jobs):
    """jobs: [(module, cfg, out_path)] -> list of result dicts. Each generator runs TLC with one
    worker in its own process (distinct metadirs)."""
    res = []
    with concurrent.futures.ProcessPoolExecutor(max_workers=min(4, len(jobs))) as ex:
        futs = [ex.submit(_gen, (m, c, o, "6g")) for (m, c, o) in jobs]
        for f in futs:
            try:
                res.append(f.result())
            except vlib.ToolError:
                raise
            except Exception as e:  # pragma: no cover
                raise vlib.ToolError("generator failed: %r" % (e,))
    for r in res:
        ctx.cov["states"] += r["distinct"]
        ctx.cov["transitions"] += r["generated"]
        vlib.log("[%s] %s/%s: %d cases (%.1fs)" % (ctx.pid, r["module"], r["cfg"], r["n"], r["wall_s"]))
    return res


def ds_jobs(ctx, sweeps):
    return [("Gen_DS", "Gen_DS_%s.cfg" % s, ctx.path("cases_%s.ndjson" % s)) for s in sweeps]


def concat(paths, out):
    n = 0
    with open(out, "w") as f:
        for p in paths:
            if not os.path.exists(p):
                continue
            with open(p) as g:
                for ln in g:
                    if ln.strip():
                        f.write(ln)
                        n += 1
    return n


def driver_env(ctx):
    env = ctx.env()
    if os.environ.get("VERIF_SELFTEST"):
        env["VERIF_SELFTEST"] = os.environ["VERIF_SELFTEST"]
    return env


def shape(ds):
    """abstract description of a data set (for fingerprints)"""
    st = {"depth": 0, "E": False, "emptyseq": False, "emptyitem": False, "pix": False, "vrs": []}

    def walk(d, depth):
        st["depth"] = max(st["depth"], depth)
        for e in d:
            if e["k"] == "S":
                if not e["items"]:
                    st["emptyseq"] = True
                if e.get("lm") == "E":
                    st["E"] = True
                for it in e["items"]:
                    if not it["ds"]:
                        st["emptyitem"] = True
                    if it.get("lm") == "E":
                        st["E"] = True
                    walk(it["ds"], depth + 1)
            elif e["k"] == "X":
                st["pix"] = True
            elif depth == 0:
                st["vrs"].append(e["vr"])

    walk(ds, 0)
    if st["depth"] == 0 and not st["pix"] and len(st["vrs"]) == 1:
        return "single %s element" % st["vrs"][0]
    parts = ["nesting depth %d" % st["depth"]]
    if st["E"]:
        parts.append("explicit lengths")
    if st["emptyseq"]:
        parts.append("empty sequence")
    if st["emptyitem"]:
        parts.append("empty item")
    if st["pix"]:
        parts.append("encapsulated pixel data")
    return ", ".join(parts)


def trace_fingerprint(rec):
    if not isinstance(rec, dict):
        return "unparsed trace record"
    ev = rec.get("ev")
    ts = rec.get("real_ts") or rec.get("ts")
    if ev == "stream":
        return "%s: written stream rejected by the PS3.5 parser/reference (%s; via %s)" % (
            ts, shape(rec.get("ds", [])), rec.get("src", "?").split("/")[0])
    if ev == "rt":
        if rec.get("write") != "ok":
            return "%s: writing a random data set fails (%s)" % (ts, str(rec.get("write"))[:40])
        if "ok" not in rec.get("rb", {}):
            return "%s: reading back a random data set fails" % ts
        return "%s: random data set: stream or read-back differs from PS35 reference" % ts
    if ev == "prim":
        if rec.get("res") != "ok":
            return "%s %s: encode_primitive fails" % (ts, rec.get("vr"))
        if rec.get("reported") != rec.get("written"):
            return "%s %s: encode_primitive reported count differs from bytes written" % (ts, rec.get("vr"))
        return "%s %s: encode_primitive bytes differ from PS3.5 value field" % (ts, rec.get("vr"))
    if ev == "elem":
        if rec.get("res") != "ok":
            return "%s %s: encode_primitive_element fails" % (ts, rec.get("vr"))
        if rec.get("counted") != rec.get("written"):
            return "%s %s: StatefulEncoder bytes_written differs from bytes written" % (ts, rec.get("vr"))
        return "%s %s: element bytes differ from PS3.5 (header, value or padding)" % (ts, rec.get("vr"))
    if ev == "file":
        if rec.get("res") != "ok":
            return "%s: write_all fails" % ts
        return "%s: file rejected by the PS3.5 parser/reference (%s)" % (ts, shape(rec.get("ds", [])))
    if ev == "cmd":
        return "command set: group length / written bytes differ from CommandSet reference"
    return "event %s rejected" % ev


def validate(ctx, module, trace_path, label, max_rejections=6, cfg=None, heap="6g"):
    """Validate a trace where every event is its own case. Returns the number of events."""
    n = vlib.count_lines(trace_path)
    if n == 0:
        return 0
    out = vlib.validate_trace_cases(SPEC, module, trace_path, cfg=cfg or (module + ".cfg"), reset_events=EVENTS,
                                    max_rejections=max_rejections, timeout=3000, heap=heap)
    for r in out["results"]:
        ctx.add_tlc(r)
    for rj in out["rejections"]:
        rec = rj["record"]
        fp = trace_fingerprint(rec)
        ctx.violation(fp, "%s: event at line %d rejected by %s: %s" % (label, rj["line"], module, json.dumps(rec)[:500]),
                      {"rejected_event": rec})
    if out["truncated"]:
        ctx.note("%s: more than %d rejections; remaining events not examined" % (label, max_rejections))
    ctx.cov["traces_validated_against_impl"] += n
    return n


def report_mismatches(ctx, rep, prop):
    k = 0
    for m in rep["mismatches"]:
        if m.get("prop") != prop:
            continue
        k += 1
        detail = {x: v for x, v in m.items() if x not in ("case", "fp", "prop")}
        ctx.violation(m["fp"], json.dumps(detail)[:500] + " case.ds=" + json.dumps(m["case"].get("ds"))[:500], m)
    if rep["mismatch_count"] > len(rep["mismatches"]):
        ctx.note("%d mismatches in total, first %d kept" % (rep["mismatch_count"], len(rep["mismatches"])))
    return k


def sample_cases(ctx, path, k=3):
    n = vlib.count_lines(path)
    if not n:
        return
    want = {0, n // 2, n - 1}
    with open(path) as f:
        for i, ln in enumerate(f):
            if i in want:
                c = json.loads(ln)
                c.pop("wireU", None)
                ctx.sample(c)


def count_nontrivial(path):
    """distinct non-trivial cases: data sets with at least one element"""
    n = 0
    with open(path) as f:
        for ln in f:
            if '"ds":[]' not in ln:
                n += 1
    return n


def replay(ctx, prop):
    """bin/check <id> --replay <file>: re-execute the recorded failing case alone.
    A driver mismatch is re-run on the real code; a rejected trace event is re-judged by TLC.
    Returns True when a replay was requested (the check then does nothing else)."""
    path = getattr(ctx, "replay", None)
    if not path:
        return False
    with open(path) as f:
        obj = json.load(f)
    rp = obj.get("replay", {})
    env = driver_env(ctx)
    if "case" in rp:
        c = rp["case"]
        one = ctx.path("replay_case.ndjson")
        vlib.write_ndjson(one, [c])
        kind = c.get("kind")
        if kind == "ds":
            rep = vlib.run_driver("drv_dataset", ["replay", "--cases", one, "--out", ctx.path("rp"), "--props", prop], env=env)
            report_mismatches(ctx, rep, prop)
            if prop == "C04":
                validate(ctx, "Trace_PS35", rep["streams_path"], "replayed case")
        elif kind == "tokens":
            rep = vlib.run_driver("drv_dataset", ["tokens", "--cases", one, "--out", ctx.path("rp")], env=env)
            report_mismatches(ctx, rep, prop)
        elif kind == "cmd":
            rep = vlib.run_driver("drv_command", ["cases", "--cases", one], env=env)
            for m in rep["mismatches"]:
                ctx.violation(m["fp"], json.dumps(m)[:600], m)
        else:
            rep = vlib.run_driver("drv_header", ["cases", "--cases", one], env=env)
            for m in rep["mismatches"]:
                ctx.violation(m["fp"], json.dumps(m)[:600], m)
        ctx.cov["evaluations"] += 1
    elif "rejected_event" in rp:
        ev = rp["rejected_event"]
        one = ctx.path("replay_event.ndjson")
        vlib.write_ndjson(one, [ev])
        module = {"cmd": "Trace_Cmd", "vrrow": "Trace_VR"}.get(ev.get("ev"), "Trace_PS35")
        if module == "Trace_VR":
            raise vlib.ToolError("a VR-table rejection is replayed by running the check itself")
        validate(ctx, module, one, "replayed recorded event (re-judged by TLC; run the check to re-execute the code)")
    else:
        raise vlib.ToolError("replay file has neither a case nor a recorded event")
    ctx.note("replay of %s" % os.path.basename(path))
    return True


def validate_as_notes(ctx, module, trace_path, label, reset_events, max_rejections=6, heap="8g"):
    """Validate a trace whose verdicts are observations outside the listed properties:
    rejections are reported with ctx.note, never as violations. Returns (events, rejections)."""
    n = vlib.count_lines(trace_path)
    if n == 0:
        return 0, []
    out = vlib.validate_trace_cases(SPEC, module, trace_path, cfg=module + ".cfg", reset_events=reset_events,
                                    max_rejections=max_rejections, timeout=3000, heap=heap)
    for r in out["results"]:
        ctx.add_tlc(r)
    for rj in out["rejections"][:3]:
        ctx.note("%s: event at line %d rejected by %s: %s" % (label, rj["line"], module, json.dumps(rj["record"])[:400]))
    if len(out["rejections"]) > 3:
        ctx.note("%s: %d rejections in total%s" % (label, len(out["rejections"]), " (more not examined)" if out["truncated"] else ""))
    return n, out["rejections"]
