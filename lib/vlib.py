"""Orchestration library for the /verif checks (see DESIGN.md section 2).

Conventions
-----------
* A check is a python module lib/checks/cXX.py with `run(ctx)`; it uses the
  helpers here to (1) model-check specs with TLC, (2) let TLC generate cases or
  behaviours, (3) run a Rust conformance driver against the real code built
  from /repo's working tree, (4) validate recorded traces with TLC, and
  (5) report violations / known findings and write evidence.
* exit codes: 0 property held on everything explored; 1 violation (with a line
  `VIOLATION property=<id> replay=<path>`); 2 tool error / timeout.
"""
import hashlib
import json
import os
import re
import shutil
import subprocess
import sys
import time

VERIF = os.path.dirname(os.path.dirname(os.path.abspath(__file__)))
SPECS = os.path.join(VERIF, "specs")
HARNESS = os.path.join(VERIF, "harness")
WORK = os.path.join(VERIF, "work")
EVIDENCE = os.path.join(VERIF, "evidence")
REPLAYS = os.path.join(WORK, "replays")
TLA_JAR = "/opt/veriftools/tla/tla2tools.jar"


class ToolError(Exception):
    pass


def log(*a):
    print(*a, flush=True)


def sh(cmd, cwd=None, env=None, timeout=None, check=False):
    e = dict(os.environ)
    if env:
        e.update(env)
    p = subprocess.run(cmd, cwd=cwd, env=e, timeout=timeout, stdout=subprocess.PIPE,
                       stderr=subprocess.STDOUT, text=True, errors="replace")
    if check and p.returncode != 0:
        raise ToolError("command failed (%d): %s\n%s" % (p.returncode, " ".join(cmd), p.stdout[-4000:]))
    return p.returncode, p.stdout


# --------------------------------------------------------------------------- build

_built = set()


def build_harness(bins=None):
    """cargo build --release --offline of the harness (path deps on /repo, so the
    current working tree of /repo is what gets compiled)."""
    key = tuple(sorted(bins)) if bins else ("*",)
    if key in _built:
        return
    cmd = ["cargo", "build", "--release", "--offline"]
    if bins:
        for b in bins:
            cmd += ["--bin", b]
    t0 = time.time()
    rc, out = sh(cmd, cwd=HARNESS, env={"CARGO_NET_OFFLINE": "true"}, timeout=3600)
    if rc != 0:
        sys.stdout.write(out[-6000:])
        raise ToolError("harness build failed")
    log("[build] harness %s built in %.1fs" % (",".join(bins) if bins else "all", time.time() - t0))
    _built.add(key)


def build_tool(name):
    """Build one of the repository's CLI tools (storescp, storescu, ...) from /repo's
    working tree into harness/target-tools; returns the binary path."""
    tdir = os.path.join(HARNESS, "target-tools")
    pkg = {"storescp": "dicom-storescp", "storescu": "dicom-storescu", "echoscu": "dicom-echoscu",
           "findscu": "dicom-findscu", "movescu": "dicom-movescu"}.get(name, name)
    key = ("tool", name)
    binpath = os.path.join(tdir, "release", pkg)
    if key in _built:
        return binpath
    t0 = time.time()
    rc, out = sh(["cargo", "build", "--release", "--offline", "--manifest-path",
                  "/repo/%s/Cargo.toml" % name, "--target-dir", tdir],
                 cwd="/repo", env={"CARGO_NET_OFFLINE": "true"}, timeout=3600)
    if rc != 0:
        sys.stdout.write(out[-6000:])
        raise ToolError("tool build failed: " + name)
    log("[build] tool %s built in %.1fs" % (name, time.time() - t0))
    _built.add(key)
    return binpath


def driver_path(name):
    return os.path.join(HARNESS, "target", "release", name)


def run_driver(name, args, timeout=1800, env=None):
    """Run a harness driver; returns the parsed REPORT object. A crash of the driver
    itself is a tool error (panics in code under test are caught inside)."""
    build_harness([name])
    t0 = time.time()
    rc, out = sh([driver_path(name)] + [str(a) for a in args], cwd=VERIF, env=env, timeout=timeout)
    rep = None
    for line in out.splitlines():
        if line.startswith("REPORT "):
            rep = json.loads(line[7:])
    if rep is None:
        sys.stdout.write(out[-4000:])
        raise ToolError("driver %s produced no REPORT (rc=%d)" % (name, rc))
    rep["_wall_s"] = time.time() - t0
    return rep


# --------------------------------------------------------------------------- TLC

_meta_counter = 0


class TlcResult:
    def __init__(self):
        self.rc = None
        self.out = ""
        self.generated = 0
        self.distinct = 0
        self.depth = 0
        self.error = None       # None | "invariant" | "property" | "deadlock" | "postcondition" | "other"
        self.error_text = ""
        self.violated = None    # name of violated invariant / property
        self.coverage = {}      # action name -> count of states found (from -coverage)
        self.wall_s = 0.0
        self.cases = []


def tlc(spec_dir, module, cfg=None, workers=4, timeout=600, env=None, simulate=None, depth=None,
        coverage=True, heap="4g", dfs_queue=False, extra=None):
    """Run TLC on <spec_dir>/<module>.tla with <cfg>. Returns TlcResult."""
    os.makedirs(WORK, exist_ok=True)
    global _meta_counter
    _meta_counter += 1
    meta = os.path.join(WORK, "tlc_meta_%d_%d_%s_%d" % (os.getpid(), _meta_counter, module, int(time.time() * 1000) % 100000))
    shutil.rmtree(meta, ignore_errors=True)
    jopts = "-Xss512m -Xmx%s" % heap
    if dfs_queue:
        jopts += " -Dtlc2.tool.queue.IStateQueue=StateDeque"
    cmd = ["java", "-XX:+UseParallelGC"] + jopts.split() + [
        "-cp", TLA_JAR + ":" + os.path.dirname(TLA_JAR) + "/*", "tlc2.TLC",
        "-workers", str(workers), "-metadir", meta, "-cleanup", "-noGenerateSpecTE"]
    if coverage and not simulate:
        cmd += ["-coverage", "1"]
    if simulate:
        cmd += ["-simulate", "num=%d" % simulate]
        if depth:
            cmd += ["-depth", str(depth)]
    if extra:
        cmd += extra
    cmd += ["-config", cfg or (module + ".cfg"), module + ".tla"]
    t0 = time.time()
    r = TlcResult()
    try:
        rc, out = sh(cmd, cwd=spec_dir, env=env, timeout=timeout)
    except subprocess.TimeoutExpired:
        shutil.rmtree(meta, ignore_errors=True)
        raise ToolError("TLC timeout (%ss) on %s/%s" % (timeout, module, cfg))
    shutil.rmtree(meta, ignore_errors=True)
    r.rc, r.out, r.wall_s = rc, out, time.time() - t0
    m = re.findall(r"(\d[\d,]*) states generated, (\d[\d,]*) distinct states found", out)
    if m:
        r.generated = int(m[-1][0].replace(",", ""))
        r.distinct = int(m[-1][1].replace(",", ""))
    m = re.search(r"depth of the complete state graph search is (\d+)", out)
    if m:
        r.depth = int(m.group(1))
    for m in re.finditer(r"^<(\w+) line \d+, col \d+ to line \d+, col \d+ of module (\w+)(?: \([\d ]+\))?>: (\d+):(\d+)", out, re.M):
        r.coverage[m.group(1)] = r.coverage.get(m.group(1), 0) + int(m.group(4))
    if "Invariant " in out and " is violated" in out:
        r.error = "invariant"
        r.violated = re.search(r"Invariant (\S+) is violated", out).group(1)
    elif "Temporal properties were violated" in out or re.search(r"Action property \S+ is violated", out):
        r.error = "property"
    elif "Deadlock reached" in out:
        r.error = "deadlock"
    elif "POSTCONDITION" in out.upper() and "violated" in out.lower() and "postcondition" in out.lower():
        r.error = "postcondition"
    elif rc != 0 or re.search(r"^Error: ", out, re.M):
        r.error = "other"
    if r.error:
        i = out.find("Error:")
        r.error_text = out[i:i + 3000] if i >= 0 else out[-3000:]
    return r


_case_re = re.compile(r'<<\s*"(CASE|REPLAY)",\s*"((?:[^"\\]|\\.)*)"\s*>>', re.S)


def tla_unescape(s):
    # TLC prints strings with \" and \\ escapes
    out = []
    i = 0
    while i < len(s):
        c = s[i]
        if c == "\\" and i + 1 < len(s):
            n = s[i + 1]
            if n == "n":
                out.append("\n")
            elif n == "t":
                out.append("\t")
            else:
                out.append(n)
            i += 2
        else:
            out.append(c)
            i += 1
    return "".join(out)


def tlc_generate(spec_dir, module, cfg, out_path, timeout=900, env=None, simulate=None, depth=None,
                 heap="6g", append=False, transform=None):
    """Run a generator spec (prints <<"CASE", ToJson(..)>> lines) with ONE worker and
    write the cases as ndjson to out_path. Returns (TlcResult, number of cases)."""
    r = tlc(spec_dir, module, cfg, workers=1, timeout=timeout, env=env, simulate=simulate, depth=depth,
            coverage=False, heap=heap)
    n = 0
    seen = set()
    with open(out_path, "a" if append else "w") as f:
        for m in _case_re.finditer(r.out):
            js = tla_unescape(m.group(2))
            if js in seen:
                continue
            seen.add(js)
            if transform:
                obj = transform(json.loads(js))
                if obj is None:
                    continue
                js = json.dumps(obj, separators=(",", ":"))
            f.write(js + "\n")
            n += 1
    if r.error and r.error != "deadlock":
        raise ToolError("generator %s/%s failed: %s" % (module, cfg, r.error_text[:1500]))
    return r, n


def validate_trace(spec_dir, module, trace_path, cfg=None, timeout=900, env=None, heap="4g"):
    """Validate an ndjson trace with a Trace_* module (TRACE env var, DFS queue, 1 worker).
    Returns dict(accepted, line, record, result)."""
    e = {"TRACE": os.path.abspath(trace_path)}
    if env:
        e.update(env)
    r = tlc(spec_dir, module, cfg, workers=1, timeout=timeout, env=e, coverage=False, heap=heap, dfs_queue=True)
    res = {"accepted": False, "line": None, "record": None, "result": r}
    m = re.search(r'<<\s*"REJECTED",\s*(\d+),\s*"((?:[^"\\]|\\.)*)"\s*>>', r.out, re.S)
    if m:
        res["line"] = int(m.group(1))
        try:
            res["record"] = json.loads(tla_unescape(m.group(2)))
        except Exception:
            res["record"] = m.group(2)
        return res
    if r.error is None and "Model checking completed. No error has been found." in r.out:
        res["accepted"] = True
        m = re.search(r'<<\s*"BADCASES",\s*"((?:[^"\\]|\\.)*)"\s*>>', r.out, re.S)
        res["bad"] = json.loads(tla_unescape(m.group(1))) if m else []
        m = re.search(r'<<\s*"EXTRA",\s*"((?:[^"\\]|\\.)*)"\s*>>', r.out, re.S)
        res["extra"] = json.loads(tla_unescape(m.group(1))) if m else []
        return res
    raise ToolError("trace validation %s on %s failed unexpectedly: %s" % (module, trace_path, (r.error_text or r.out[-2000:])[:2500]))


def validate_trace_cases(spec_dir, module, trace_path, cfg=None, reset_events=("reset",), max_rejections=8,
                         timeout=900, env=None, heap="4g"):
    """Validate a multi-case trace. When a case is rejected, record the rejection, cut that
    case out (from its reset event to the next reset event) and validate the rest, so one
    rejection does not hide the remainder of the trace.  Returns dict(rejections=[{line,
    record, case_events}], results=[TlcResult...], cases_cut=int, truncated=bool)."""
    rejections, results = [], []
    cur = trace_path
    truncated = False
    for rnd in range(max_rejections + 1):
        res = validate_trace(spec_dir, module, cur, cfg=cfg, timeout=timeout, env=env, heap=heap)
        results.append(res["result"])
        if res["accepted"]:
            break
        with open(cur) as f:
            lines = f.readlines()
        L = res["line"]
        start = L - 1
        while start > 0 and json.loads(lines[start]).get("ev") not in reset_events:
            start -= 1
        end = L
        while end < len(lines) and json.loads(lines[end]).get("ev") not in reset_events:
            end += 1
        case_events = [json.loads(x) for x in lines[start:min(end, L + 3)]]
        rejections.append({"line": L, "record": res["record"], "case_events": case_events[-80:],
                           "line_in_case": L - start})
        rest = lines[:start] + lines[end:]
        if not rest or rnd == max_rejections:
            truncated = bool(rest) and rnd == max_rejections
            break
        cur = trace_path + ".cut%d" % (rnd + 1)
        with open(cur, "w") as f:
            f.writelines(rest)
    return {"rejections": rejections, "results": results, "truncated": truncated}


def count_lines(path):
    n = 0
    with open(path) as f:
        for _ in f:
            n += 1
    return n


def read_ndjson(path):
    out = []
    with open(path) as f:
        for line in f:
            line = line.strip()
            if line:
                out.append(json.loads(line))
    return out


def write_ndjson(path, items):
    with open(path, "w") as f:
        for it in items:
            f.write(json.dumps(it, separators=(",", ":")) + "\n")


# --------------------------------------------------------------------------- context / verdicts

class Ctx:
    def __init__(self, pid, tier, seed):
        self.pid = pid
        self.tier = tier
        self.seed = seed
        self.t0 = time.time()
        self.work = os.path.join(WORK, pid)
        shutil.rmtree(self.work, ignore_errors=True)
        os.makedirs(self.work, exist_ok=True)
        os.makedirs(REPLAYS, exist_ok=True)
        os.makedirs(EVIDENCE, exist_ok=True)
        self.violations = []       # (fingerprint, description, replay_path)
        self.known_hits = []
        self.cov = {"states": 0, "transitions": 0, "traces_validated_against_impl": 0, "samples": [],
                    "evaluations": 0, "distinct_nontrivial": 0}
        self.notes = []
        self.assumptions = []
        self.level = "model_checking"
        self.rule = ""
        self.exhaustive = None
        self.extra_cov = {}
        self.known = load_known_findings(pid)

    @property
    def quick(self):
        return self.tier == "quick"

    def path(self, name):
        return os.path.join(self.work, name)

    def env(self):
        return {"VERIF_SEED": str(self.seed), "VERIF_TIER": self.tier}

    # -- accounting
    def add_tlc(self, r):
        self.cov["states"] += r.distinct
        self.cov["transitions"] += r.generated

    def sample(self, obj):
        if len(self.cov["samples"]) < 6:
            s = json.dumps(obj)
            if len(s) > 1500:
                obj = s[:1500] + "..."
            self.cov["samples"].append(obj)

    def note(self, s):
        self.notes.append(s)
        log("[note] " + s)

    # -- verdicts
    def violation(self, fingerprint, description, replay_obj):
        """Report a property violation. `fingerprint` is a short stable abstract key
        (matched against known_findings.json); replay_obj is written to a replay file."""
        for k in self.known:
            if k.get("status", "open") == "open" and re.fullmatch(k["fingerprint"], fingerprint):
                if (k["fingerprint"], k["what"]) not in [(a, b) for a, b, _ in self.known_hits]:
                    self.known_hits.append((k["fingerprint"], k["what"], fingerprint))
                return False
        h = hashlib.sha1((self.pid + fingerprint).encode()).hexdigest()[:10]
        path = os.path.join(REPLAYS, "%s-%s.json" % (self.pid, h))
        if not any(v[0] == fingerprint for v in self.violations):
            with open(path, "w") as f:
                json.dump({"property": self.pid, "fingerprint": fingerprint, "description": description,
                           "replay": replay_obj}, f, indent=1)
            self.violations.append((fingerprint, description, path))
        return True

    def check_model(self, r, what):
        """A model-checking run must pass; a failing invariant in the *model* is a
        tool-level problem of the specification (the spec is expected to satisfy its
        own properties), reported as a tool error."""
        if r.error:
            raise ToolError("model check %s failed (%s %s):\n%s" % (what, r.error, r.violated or "", r.error_text[:3000]))
        self.add_tlc(r)

    def require_coverage(self, r, actions):
        missing = [a for a in actions if r.coverage.get(a, 0) + r.coverage.get(a + "Any", 0) == 0]
        if missing:
            raise ToolError("vacuity: actions never taken in model: %s" % missing)

    def finish(self):
        wall = time.time() - self.t0
        cov = dict(self.cov)
        cov.update(self.extra_cov)
        cov["rule"] = self.rule
        if self.exhaustive is not None:
            cov["exhaustive"] = self.exhaustive
        if self.level != "model_checking":
            for k in ("states", "transitions", "traces_validated_against_impl"):
                if not cov.get(k):
                    cov.pop(k, None)
        if not cov["samples"]:
            cov["samples"] = ["(no sample recorded)"]
        if self.notes:
            cov["notes"] = self.notes
        if self.known_hits:
            cov["known_findings_hit"] = [{"fingerprint": a, "what": b, "instance": c} for a, b, c in self.known_hits]
        ev = {"property_id": self.pid, "tier": self.tier, "seed": self.seed, "level": self.level,
              "coverage": cov, "assumptions": self.assumptions, "wall_s": round(wall, 2),
              "violations": len(self.violations)}
        with open(os.path.join(EVIDENCE, self.pid + ".json"), "w") as f:
            json.dump(ev, f, indent=1)
        for fp, what, inst in self.known_hits:
            log("KNOWN-FINDING: property=%s %s [%s]" % (self.pid, what, inst))
        for fp, desc, path in self.violations:
            log("VIOLATION property=%s replay=%s" % (self.pid, path))
            log("   " + fp + " :: " + desc[:600])
        log("[%s %s] states=%d transitions=%d traces=%d evaluations=%d violations=%d known=%d wall=%.1fs" % (
            self.pid, self.tier, self.cov["states"], self.cov["transitions"],
            self.cov["traces_validated_against_impl"], self.cov["evaluations"], len(self.violations),
            len(self.known_hits), wall))
        if not os.environ.get("VERIF_KEEP"):
            shutil.rmtree(self.work, ignore_errors=True)
        return 1 if self.violations else 0


def load_known_findings(pid):
    p = os.path.join(VERIF, "known_findings.json")
    if not os.path.exists(p):
        return []
    with open(p) as f:
        data = json.load(f)
    return [k for k in data.get("findings", []) if k.get("property") == pid]
